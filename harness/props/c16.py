"""C16 — anything read can be saved again, and a second generation equals the first."""
import os
import numpy as np
import emdfile
from harness import common, gen, alpha, hist
from harness.props import c17, c15

PID = "C16"
RULE = ("files produced from the domain of C01-C04 (seeded trees of all four classes with calibrated arrays, stacks, point "
        "lists, ragged arrays, Metadata of every documented kind) and legacy 0.1 files of C17; every read selection (default read, "
        "whole tree, a node alone, a node with its branch, the branch below a node); what is read is saved to a second file, read "
        "again, saved to a third and read again; the content of generation 1, 2 and 3 (kind-sensitive: classes, names, data tokens, "
        "dim vectors, units, labels, fields, cells, metadata values) must be identical; the value-level part is compared with the "
        "Lean metadata model (second-generation object = first-generation object); non-trivial = tree with metadata or arrays; "
        "distinct by recipe hash")


def cases(tier, seed):
    n = 80 if tier == "quick" else 1500
    for i in range(n):
        r = common.case_rng(seed, PID, i)
        if r.random() < 0.2:
            lc = None
            for c in c17.cases("quick", r.randrange(10**6)):
                if c["kind"] == "legacy" and not any(g["defect"] for g in c["groups"]):
                    lc = c; break
            if lc:
                yield {"kind": "legacy", "legacy": lc}
                continue
        if r.random() < 0.25:
            used = set()
            yield {"kind": "mdgen", "items": [[gen.gen_name(r, used, odd=0.2), gen.gen_md_value(r, 0, r.choice([1, 2, 4]))]
                                               for _ in range(r.choice([1, 3, 6]))]}
            continue
        if r.random() < 0.12:
            # a bare Metadata saved through the public entry point: read returns it bare, and it is saved again as it is
            used = set()
            yield {"kind": "mdfile", "name": gen.gen_name(r, set(), odd=0.2),
                   "items": [[gen.gen_name(r, used, odd=0.2), gen.gen_md_value(r, 0, r.choice([1, 2]))] for _ in range(r.choice([1, 2, 4]))]}
            continue
        t = gen.gen_tree(r, rootname=gen.gen_name(r, set(), odd=0.2), maxdepth=r.choice([1, 2, 3]), md=0.7)
        # richer arrays: calibrations and stacks
        def enrich(rec):
            if rec["cls"] == "Array" and r.random() < 0.7:
                from harness import arrays
                a = arrays.gen_case(r, allow_bad=False)
                a["then"] = []
                rec["pay"] = {"arraycase": a}
                res = {"data"} | {f"dim{i}" for i in range(len(a["shape"]) + 1)}
                rec["kids"] = [k for k in rec["kids"] if k["name"] not in res]
            for k in rec["kids"]:
                enrich(k)
        enrich(t)
        paths = gen.tree_paths(t)
        sel = r.choice(["default", "whole", "node", "branch", "below"])
        yield {"kind": "tree", "tree": t, "sel": sel, "path": list(r.choice(paths))}


def build_tree(rec):
    from harness import arrays
    def node(r):
        if r["cls"] == "Array" and "arraycase" in r.get("pay", {}):
            a = r["pay"]["arraycase"]
            kw = {}
            if a["dims"] is not None:
                kw["dims"] = [arrays.py_dim(d) for d in a["dims"]]
            if a["names"] is not None:
                kw["dim_names"] = list(a["names"])
            if a["dunits"] is not None:
                kw["dim_units"] = list(a["dunits"])
            if a["labels"] is not None:
                kw["slicelabels"] = a["labels"] if a["labels"] is True else list(a["labels"])
            try:
                n = emdfile.Array(data=arrays.build_data(a), name=r["name"], units=a["units"], **kw)
            except Exception:
                n = emdfile.Array(data=arrays.build_data(a), name=r["name"])
            for m in r.get("md", []):
                n.metadata = gen.build_metadata(m)
            return n
        return gen.build_node(r)
    def rec_build(r, parent):
        n = node(r)
        if parent is not None:
            parent.add_to_tree(n)
        for k in r.get("kids", []):
            rec_build(k, n)
        return n
    return rec_build(rec, None)


def gen_content(x):
    """content of whatever read returned"""
    if isinstance(x, list):
        return {"rootnames": sorted(x)}
    if isinstance(x, emdfile.Metadata):
        from harness import mdvals
        return {"metadata": [x.name, mdvals.canon_items([[k, mdvals.pv(v)] for k, v in x._params.items()])]}
    root = x.root if x.root is not None else x
    return {"returned": type(x).__name__, "path": x._treepath, "tree": c15.content(root)}


def run_mdgen(drv, case):
    """value level: the object written for what was read must be the object written the first time (impl and model)"""
    from harness import mdvals
    data = {k: gen.build_md_value(v) for k, v in case["items"]}
    io = {"gens": [], "errors": [], "objs_equal": None}
    j1 = [[k, mdvals.pv(v)] for k, v in data.items()]
    try:
        with common.quiet():
            g = alpha.scratch_group(); emdfile.Metadata(name="m", data=data).to_h5(g)
            o1 = alpha.canon_obs(mdvals.md_raw(g["m"]))
            b1 = emdfile.Metadata.from_h5(g["m"])
            g2 = alpha.scratch_group(); b1.to_h5(g2)
            o2 = alpha.canon_obs(mdvals.md_raw(g2["m"]))
            b2 = emdfile.Metadata.from_h5(g2["m"])
        j2 = [[k, mdvals.pv(v)] for k, v in b1._params.items()]
        j3 = [[k, mdvals.pv(v)] for k, v in b2._params.items()]
        io["objs_equal"] = (o1 == o2)
        io["gens"] = [{"md": mdvals.canon_items(j2)}, {"md": mdvals.canon_items(j3)}]
    except Exception as e:
        io["errors"].append(f"{type(e).__name__}: {str(e)[:80]}")
        return io, dict(io)
    mo = dict(io)
    if drv is not None:
        a1 = drv.ask({"op": "md", "items": mdvals.model_view(j1)})
        a2 = drv.ask({"op": "md", "items": mdvals.model_view(j2)})
        mo = dict(io, objs_equal=(alpha.canon_obs(a1.get("obj")) == alpha.canon_obs(a2.get("obj"))),
                  gens=[{"md": mdvals.canon_items(a1["back"])} if isinstance(a1.get("back"), list) else {"err": 1},
                        {"md": mdvals.canon_items(a2["back"])} if isinstance(a2.get("back"), list) else {"err": 1}])
    return io, mo


def run_both(drv, case):
    if case["kind"] == "mdgen":
        return run_mdgen(drv, case)
    d = common.fresh_path(suffix="_d")
    os.makedirs(d, exist_ok=True)
    obs = {"gens": [], "errors": []}
    try:
        p1 = os.path.join(d, "g1.h5")
        if case["kind"] == "legacy":
            c17.build_file(case["legacy"], p1)
            kw = {}
        elif case["kind"] == "mdfile":
            with common.quiet():
                emdfile.save(p1, emdfile.Metadata(name=case["name"], data={k: gen.build_md_value(v) for k, v in case["items"]}))
            kw = {}
        else:
            root = build_tree(case["tree"])
            with common.quiet():
                emdfile.save(p1, root)
            rn = case["tree"]["name"]
            ep = "/".join([rn] + case["path"])
            kw = {"default": {}, "whole": {"emdpath": rn, "tree": None}, "node": {"emdpath": ep, "tree": False},
                  "branch": {"emdpath": ep, "tree": True}, "below": {"emdpath": ep, "tree": None}}[case["sel"]]
        cur = p1
        x = None
        for g in range(1, 4):
            try:
                with common.quiet():
                    x = emdfile.read(cur, **kw)
            except Exception as e:
                obs["errors"].append(f"read of generation {g}: {type(e).__name__}")
                break
            try:
                obs["gens"].append(gen_content(x))
            except Exception as e:
                obs["errors"].append(f"content of generation {g}: {type(e).__name__}")
                break
            if isinstance(x, list):
                break
            nxt = os.path.join(d, f"g{g+1}.h5")
            try:
                with common.quiet():
                    # save what was read: the object returned, with its tree
                    emdfile.save(nxt, x if not isinstance(x, emdfile.Node) or x.root is None else x.root)
            except Exception as e:
                obs["errors"].append(f"save of generation {g+1}: {type(e).__name__}: {str(e)[:80]}")
                break
            cur = nxt
            # later generations are read back whole (the selection was made in generation 1)
            if isinstance(x, emdfile.Metadata):
                kw = {}
            else:
                rootname = (x.root if x.root is not None else x).name
                kw = {"emdpath": rootname, "tree": None}
    finally:
        import shutil
        shutil.rmtree(d, ignore_errors=True)
    # compare whole-tree content from generation 1 on (generation 1 may be a node inside its tree: compare its tree)
    return obs, obs


def same_value_form(x):
    """content is compared by VALUE: the two IEEE zeros are one value (numpy's == and array_equal say so, and so does the
    property: "no value drifts"); everything else stays bit-exact, so a drift of one ulp is still a difference"""
    if isinstance(x, dict):
        if x == {"f": "8000000000000000"}:
            return {"f": "0000000000000000"}
        return {k: same_value_form(v) for k, v in x.items()}
    if isinstance(x, list):
        return [same_value_form(v) for v in x]
    return x


def strip_sel(g):
    if "tree" in g:
        return same_value_form(g["tree"])
    return same_value_form(g)


def oracle(case, obs):
    if case["kind"] == "mdgen" and not obs["errors"] and obs.get("objs_equal") is not True:
        return {"second_generation_object_differs_from_first": True}
    if obs["errors"]:
        return {"generation_failed": obs["errors"][0]}
    gs = [strip_sel(g) for g in obs["gens"]]
    if len(gs) >= 2:
        if "metadata" in gs[0] and "md" in gs[1]:
            # a lone Metadata is returned bare in generation 1 and as the root's only entry later: compare the entry
            name, items = gs[0]["metadata"]
            if gs[1]["md"].get(name) != items:
                return {"metadata_changed_between_generations": name}
            gs = gs[1:]
        for i in range(1, len(gs)):
            if gs[i] != gs[0]:
                return {"generation": i + 1, "differs_from_generation_1": c15.first_diff(gs[0], gs[i])}
    return None


def known_match(case, fail, finding):
    return False


def nontrivial(case):
    return case["kind"] in ("legacy", "mdgen", "mdfile") or gen.tree_size(case["tree"]) >= 2


def classify(case, obs):
    return [case["kind"], case.get("sel", "legacy"), f"gens_{len(obs['gens'])}"]


def search_cases(tier, seed):
    yield from cases("thorough", seed + 413158511)
