"""C14 — array calibrations match the data: one dim vector per axis, of the axis length."""
import numpy as np
from harness import common, arrays, alpha

PID = "C14"
RULE = ("seeded Arrays: rank 1-6, extents 1-7, every dtype and memory layout, every form of dims / dim_units / dim_names "
        "(None, shorter, equal, longer than rank; entries None, number, pair, full vector as list or array; int or float; steps "
        "like 0.1, 1/3, 2^-k), stack arrays with full / partial / auto / too many labels, followed by 0-3 set_dim / "
        "set_dim_units / set_dim_name calls incl. invalid ones; observation after construction and after every setter with dim "
        "values compared BIT-EXACTLY with the Lean model (Float driver); non-trivial = some dims entry is a number or a pair, or a "
        "setter is used; labels are indexed after construction AND after every setter and the slice returned must carry the "
        "stack's current calibrations (also compared per label with the model's get_slice); over-long label lists repeating kept "
        "labels; the lists passed to the constructor (dim_units, dim_names, slicelabels) are compared before and after the call; "
        "distinct by recipe hash")


def cases(tier, seed):
    n = 300 if tier == "quick" else 8000
    for i in range(n):
        r = common.case_rng(seed, PID, i)
        yield arrays.gen_case(r)
    if tier == "thorough":
        # sweep of steps k/10, k/3, 2^-k and lengths 1..60 for the ramp
        import struct
        for k in range(1, 40):
            for step in (k / 10, k / 3, 2.0 ** -k, -k / 7):
                for length in (1, 2, 3, 7, 10, 33, 60):
                    yield {"dtype": "f8", "shape": [length], "seed": 1, "units": "", "layout": "C",
                           "dims": [{"num": {"f": struct.pack(">d", step).hex()}}], "names": None, "dunits": None,
                           "labels": None, "then": []}


def run_both(drv, case):
    io, objs = arrays.run_impl(case)
    LAST_LEAK[0] = arrays.LEAK[0]
    run_both.objs = objs
    mo = arrays.model_obs(drv, case) if drv is not None else None
    return arrays.canon(io), (arrays.canon(mo) if mo is not None else None)


def check_obs(case, ob, args):
    """the statement of C14 on one observation of the array"""
    if "err" in ob:
        return None
    rank = ob["rank"]
    if not (len(ob["dims"]) == len(ob["dunits"]) == len(ob["dnames"]) == rank):
        return {"counts": [len(ob["dims"]), len(ob["dunits"]), len(ob["dnames"])], "rank": rank}
    want_shape = ob["shape"][1:] if ob["stack"] else ob["shape"]
    if ob["ashape"] != want_shape or rank != len(want_shape) or ob["depth"] != (ob["shape"][0] if ob["stack"] else 0):
        return {"stack_algebra": [ob["ashape"], rank, ob["depth"]], "data_shape": ob["shape"]}
    for n in range(rank):
        if len(ob["dims"][n]) != want_shape[n]:
            return {"axis": n, "dim_vector_length": len(ob["dims"][n]), "extent": want_shape[n]}
    return None


LAST_LEAK = [None]


def oracle(case, obs):
    if LAST_LEAK[0] is not None:
        if "setter_on_one_array_changed_the_calibration_of_another" in LAST_LEAK[0]:
            return LAST_LEAK[0]
        return {"label_does_not_address_its_slice": LAST_LEAK[0]}
    ctor = obs["ctor"]
    f = check_obs(case, ctor, None)
    if f:
        return dict(f, at="construction")
    if "err" not in ctor:
        rank = ctor["rank"]
        dims = case["dims"] or []
        for n in range(rank):
            d = dims[n] if n < len(dims) else None
            got = [arrays.num_py(x) for x in ctor["dims"][n]]
            N = len(got)
            if d is None:
                if got != list(range(N)) or ctor["dunits"][n] != "pixels":
                    return {"axis": n, "omitted_dim": got, "units": ctor["dunits"][n]}
            else:
                if "num" in d:
                    a, b = 0, arrays.num_py(d["num"])
                elif len(d["vec"]) == 2 and N != 2:
                    a, b = arrays.num_py(d["vec"][0]), arrays.num_py(d["vec"][1])
                else:
                    a = b = None
                if a is not None:
                    for i, v in enumerate(got):
                        want = a + i * (b - a)
                        ok = (v == want) or (isinstance(want, float) and (np.isnan(want) or abs(v - want) <= 4e-16 * max(abs(want), abs(a), abs(b) * N, 1e-300)))
                        if not ok:
                            return {"axis": n, "ramp_entry": i, "got": v, "expected": want}
                if case["dunits"] is not None and n < len(case["dunits"]) and ctor["dunits"][n] != case["dunits"][n]:
                    return {"axis": n, "units_not_kept": ctor["dunits"][n], "given": case["dunits"][n]}
            if case["names"] is not None and n < len(case["names"]) and ctor["dnames"][n] != case["names"][n]:
                return {"axis": n, "name_not_kept": ctor["dnames"][n], "given": case["names"][n]}
        # stack: indexing by the i-th label returns slice i with the same calibrations
        objs = getattr(run_both, "objs", None)
        if ctor["stack"] and objs and objs[0] is not None and len(set(ctor["labels"])) == len(ctor["labels"]):
            a = objs[0]
            for i, l in enumerate(a.slicelabels):
                s = a[l]
                if alpha.array_token(s.data) != alpha.array_token(a.data[i]):
                    return {"label": str(l), "slice_is_not_slice": i}
                if [list(np.asarray(d)) for d in s.dims] != [list(np.asarray(d)) for d in a.dims] or tuple(s.dim_units) != tuple(a.dim_units) \
                        or tuple(s.dim_names) != tuple(a.dim_names):
                    return {"label": str(l), "slice_calibrations_differ": True}
    for k, ob in enumerate(obs["setters"]):
        f = check_obs(case, ob, None)
        if f:
            return dict(f, at=f"setter {k}")
    return None


def known_match(case, fail, finding):
    return False


def nontrivial(case):
    return bool(case["then"]) or any(d is not None and ("num" in d or len(d["vec"]) == 2) for d in (case["dims"] or []))


def classify(case, obs):
    out = ["ctor_" + ("err" if "err" in obs["ctor"] else "ok"), f"rank_{len(case['shape'])}", "stack" if case["labels"] is not None else "plain"]
    for d in case["dims"] or []:
        out.append("dim_" + ("none" if d is None else "num" if "num" in d else f"vec"))
    for s in obs["setters"]:
        out.append("setter_" + (s.get("err", "ok") if isinstance(s, dict) and "err" in s else "ok"))
    return out


def search_cases(tier, seed):
    yield from cases("thorough", seed + 982451653)
