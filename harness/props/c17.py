"""C17 — legacy EMD 0.1 files are imported faithfully; everything else is refused."""
import os
import numpy as np
import h5py
import emdfile
from harness import common, gen, alpha, arrays

PID = "C17"
RULE = ("seeded EMD 0.1 files (1-4 data groups tagged emd_group_type=1 at depth 0-3 of ordinary groups, any rank 1-4 and dtype, "
        "full-length 1-based dim datasets with name / units), non-EMD HDF5 files (missing / wrong header attributes, files emdfile wrote whose header version is changed to 1.1 / 2.0 / 0.9 / 1.-1 …, no roots, unrelated content) and non-HDF5 bytes; read() observed as: imported arrays by name with data token, "
        "per-axis dim values (bit-exact), names and units, single Array vs. root, or the kind of error; compared with the Lean "
        "legacy model and with the direct predicate; 6 % of the data groups have 10-12 axes (dim10 sorts before dim2); files the package wrote with one header attribute "
        "REMOVED; non-trivial = >= 2 data groups or a refused file; distinct by recipe hash")
GNAMES = ["data", "raw", "experiment 1", "Mess_é", "stack", "a", "b", "image", "spectrum"]


def cases(tier, seed):
    n = 200 if tier == "quick" else 3000
    for i in range(n):
        r = common.case_rng(seed, PID, i)
        if i < 6:
            # directed: a file the package wrote, with ONE of the three header attributes the detector requires removed
            yield {"kind": "foreign", "spec": "version", "major": 1, "minor": 0, "release": None,
                   "drop": ["emd_group_type", "version_major", "version_minor"][i % 3], "tree": gen.gen_tree(r, maxdepth=2)}
            continue
        c = r.random()
        if c < 0.6:
            ng = r.choice([1, 1, 2, 3, 4])
            names = r.sample(GNAMES, ng)
            groups = []
            for nm in names:
                rank = r.choice([1, 2, 2, 3, 4])
                shape = [r.randrange(1, 5) for _ in range(rank)]
                if r.random() < 0.06:
                    # ten axes and more: `dim10` sorts before `dim2`
                    rank = r.choice([10, 11, 12])
                    shape = [r.choice([1, 2, 2, 3]) if k in (0, 1, rank - 1) else r.choice([1, 1, 2]) for k in range(rank)]
                dims = []
                for k in range(rank):
                    kind = r.choice(["int", "float"])
                    a0, st = arrays.num_py(arrays.gen_num(r, kind)), arrays.num_py(arrays.gen_num(r, kind))
                    vals = [a0 + st * j for j in range(shape[k])]
                    if r.random() < 0.3 and shape[k] > 2:
                        vals[-1] += 1
                    dims.append({"vals": [arrays.num_json(v) for v in vals], "name": r.choice(arrays.NAMES), "units": r.choice(arrays.UNITS)})
                groups.append({"path": [r.choice(["grp", "sub", "x y", "G2"]) for _ in range(r.choice([0, 0, 1, 2, 3]))] + [nm],
                               "dtype": r.choice(gen.DTYPES), "shape": shape, "seed": r.randrange(10**6), "dims": dims,
                               "defect": r.choice([None] * 8 + ["no_dim", "no_units", "short_dim"])})
            yield {"kind": "legacy", "groups": groups, "extra_attrs": r.random() < 0.3}
        elif c < 0.72:
            # a file emdfile itself wrote, with only the header's version numbers changed: not EMD 1.0 any more
            maj, mnr = r.choice([(1, 1), (1, 7), (2, 0), (3, 4), (0, 9), (1, -1), (0, 0), (0, 1), (10, 0), (1, 10)])
            case = {"kind": "foreign", "spec": "version", "major": maj, "minor": mnr, "release": r.choice([None, 0, 3]),
                    "tree": gen.gen_tree(r, maxdepth=2)}
            if r.random() < 0.3:
                # ... or with a header attribute MISSING (the numbers left as the package wrote them): absent is not "as expected"
                case.update(major=1, minor=0, release=None, drop=r.choice(["emd_group_type", "version_major", "version_minor"]))
            yield case
        elif c < 0.85:
            yield {"kind": "foreign", "spec": r.choice(["empty", "attrs_only", "wrong_version", "no_roots", "group", "wrong_type",
                                                         "tag_str", "tag_two"])}
        else:
            yield {"kind": "junk", "bytes": r.choice(["", "hello", "\x89HDF\r\n\x1a\nnot really", "x" * 5000])}


def build_file(case, path):
    if case["kind"] == "junk":
        with open(path, "wb") as f:
            f.write(case["bytes"].encode("latin1"))
        return
    if case["kind"] == "foreign" and case["spec"] == "version":
        root, _ = gen.build_tree(case["tree"])
        with common.quiet():
            emdfile.save(path, root)
        with h5py.File(path, "a") as f:
            f.attrs["version_major"] = case["major"]
            f.attrs["version_minor"] = case["minor"]
            if case["release"] is not None:
                f.attrs["version_release"] = case["release"]
            if case.get("drop"):
                del f.attrs[case["drop"]]
        return
    with h5py.File(path, "w") as f:
        if case["kind"] == "foreign":
            s = case["spec"]
            if s == "attrs_only":
                f.attrs["emd_group_type"] = "file"; f.attrs["version_major"] = 1; f.attrs["version_minor"] = 0
            elif s == "wrong_version":
                f.attrs["emd_group_type"] = "file"; f.attrs["version_major"] = 0; f.attrs["version_minor"] = 2
                g = f.create_group("r"); g.attrs["emd_group_type"] = "root"
            elif s == "no_roots":
                f.attrs["emd_group_type"] = "file"; f.attrs["version_major"] = 1; f.attrs["version_minor"] = 0
                g = f.create_group("r"); g.attrs["emd_group_type"] = "node"
            elif s == "group":
                g = f.create_group("stuff"); g.create_dataset("x", data=np.arange(3))
            elif s == "wrong_type":
                f.attrs["emd_group_type"] = "root"; f.attrs["version_major"] = 1; f.attrs["version_minor"] = 0
                g = f.create_group("r"); g.attrs["emd_group_type"] = "root"
            elif s == "tag_str":
                g = f.create_group("d"); g.attrs["emd_group_type"] = "1"; g.create_dataset("data", data=np.zeros(2))
            elif s == "tag_two":
                g = f.create_group("d"); g.attrs["emd_group_type"] = 2; g.create_dataset("data", data=np.zeros(2))
            elif s == "minimal_emd":
                f.attrs["emd_group_type"] = "file"; f.attrs["version_major"] = 1; f.attrs["version_minor"] = 0
                g = f.create_group("r"); g.attrs["emd_group_type"] = "root"; g.attrs["python_class"] = "Root"
            return
        if case.get("extra_attrs"):
            f.attrs["version_major"] = 0; f.attrs["version_minor"] = 2
        for gr in case["groups"]:
            cur = f
            for p in gr["path"][:-1]:
                cur = cur.require_group(p)
            g = cur.create_group(gr["path"][-1])
            g.attrs["emd_group_type"] = 1
            g.create_dataset("data", data=gen.build_arr({"dtype": gr["dtype"], "shape": gr["shape"], "seed": gr["seed"]}))
            for k, d in enumerate(gr["dims"]):
                if gr["defect"] == "no_dim" and k == len(gr["dims"]) - 1:
                    continue
                vals = [arrays.num_py(v) for v in d["vals"]]
                if gr["defect"] == "short_dim" and k == 0 and len(vals) > 3:
                    vals = vals[:-1]
                ds = g.create_dataset(f"dim{k+1}", data=np.array(vals))
                ds.attrs["name"] = d["name"]
                if not (gr["defect"] == "no_units" and k == 0):
                    ds.attrs["units"] = d["units"]


def legacy_raw(o):
    """raw walk for foreign / legacy files: dim datasets with their numbers, data as token"""
    if isinstance(o, h5py.Dataset):
        a = alpha.raw_attrs(o)
        name = o.name.split("/")[-1]
        if name.startswith("dim") and o.ndim == 1 and o.dtype.kind in "iuf":
            return {"d": a, "v": {"nums": [arrays.num_json(x) for x in o[...].tolist()]}}
        return {"d": a, "v": alpha.dataset_token(o)}
    return {"g": alpha.raw_attrs(o), "k": [[k, legacy_raw(o[k])] for k in o.keys()]}


def run_both(drv, case):
    path = common.fresh_path()
    build_file(case, path)
    try:
        with common.quiet():
            x = emdfile.read(path)
        if isinstance(x, emdfile.Array) and x.root is not None and len(x.root._branch._dict) == 1 and not isinstance(x, emdfile.Root):
            io = {"kind": "single", "name": x.name, "array": arrays.array_obs(x)}
        elif isinstance(x, emdfile.Root):
            io = {"kind": "many", "arrays": {k: arrays.array_obs(v) for k, v in x._branch._dict.items()}}
        else:
            io = {"kind": "other", "type": type(x).__name__}
    except Exception as e:
        io = alpha.exc_kind(e)
    mo = None
    if drv is not None:
        if case["kind"] == "junk":
            req = {"op": "legacy", "junk": "x"}
        else:
            with h5py.File(path, "r") as f:
                req = {"op": "legacy", "h5": legacy_raw(f)}
        mo = drv.ask(req)
    os.remove(path)
    return alpha.canon_obs(io), (alpha.canon_obs(mo) if mo is not None else None)


def oracle(case, obs):
    if case["kind"] == "junk":
        return None if "err" in obs else {"junk_file_read_as": obs.get("kind")}
    if case["kind"] == "foreign":
        if case["spec"] == "minimal_emd":
            return None
        return None if "err" in obs else {"non_emd_file_read_as": obs.get("kind"), "spec": case["spec"]}
    groups = case["groups"]
    if any(g["defect"] for g in groups):
        return None      # malformed legacy groups: outside the statement (the read raises)
    if "err" in obs:
        return {"legacy_file_refused": obs}
    got = {obs["name"]: obs["array"]} if obs["kind"] == "single" else obs.get("arrays", {})
    if (obs["kind"] == "single") != (len(groups) == 1):
        return {"single_vs_root": obs["kind"], "groups": len(groups)}
    for g in groups:
        nm = g["path"][-1]
        if nm not in got:
            return {"data_group_not_imported": nm}
        a = got[nm]
        data = gen.build_arr({"dtype": g["dtype"], "shape": g["shape"], "seed": g["seed"]})
        if a["tok"] != alpha.array_token(data):
            return {"group": nm, "data_differs": True}
        for k, d in enumerate(g["dims"]):
            if [arrays.num_py(x) for x in a["dims"][k]] != [arrays.num_py(x) for x in d["vals"]] or a["dnames"][k] != d["name"] \
                    or a["dunits"][k] != d["units"]:
                return {"group": nm, "axis": k, "imported": [a["dims"][k], a["dnames"][k], a["dunits"][k]], "file": d}
    return None


def known_match(case, fail, finding):
    if finding["id"] == "C17-K1" and case.get("kind") == "legacy":
        names = [g["path"][-1] for g in case["groups"]]
        return len(set(names)) < len(names) and ("data_differs" in fail or "data_group_not_imported" in fail or "single_vs_root" in fail or "axis" in fail)
    return False


def nontrivial(case):
    return case["kind"] != "legacy" or len(case["groups"]) >= 2


def classify(case, obs):
    return [case["kind"], "err" if "err" in obs else obs.get("kind", "?")]


def search_cases(tier, seed):
    yield from cases("thorough", seed + 961748927)
