"""C12 — tree operations keep every node consistent with the tree it is in."""
from harness import common, forest

PID = "C12"
RULE = ("seeded sequences of 4-30 tree-building operations (make root / node, add, force add, graft from another tree / from "
        "a root / within the same tree, cut at any node, each with every root-metadata option, plus forbidden operations and "
        "path look-ups) over forests of distinctly named nodes, never grafting a node onto its own descendant; after EVERY "
        "operation the whole forest is snapshotted (per node: root, treepath, children, metadata identity) and compared with the "
        "Lean heap model, and the well-formedness predicate is evaluated directly; non-trivial = sequence moving a branch with "
        "descendants; node names derived from other nodes' names (proper prefixes), nodes of every built-in class incl. EMPTY "
        "PointLists (falsy objects), option strings and names rebuilt at run time, every operation reached through its method "
        "or through one of the spellings of the dispatcher .tree(...); a legal move that is refused is a violation; distinct by recipe hash")
OPTS = [True, False, "copy", "overwrite", "copyover"]


def gen_steps(r, nops, md_prob=0.10, cut_opts=(True, False, "copy"), scenario=False):
    """generate a valid-ish sequence, tracking a shadow forest to avoid grafts onto own descendants"""
    steps = []
    parent = {}      # id -> parent id (None for tops)
    isroot = {}
    rooted = {}      # id -> bool
    names = {}
    nid = 0

    def descendants(x):
        out = {x}
        changed = True
        while changed:
            changed = False
            for k, p in parent.items():
                if p in out and k not in out:
                    out.add(k); changed = True
        return out

    def new(kind):
        nonlocal nid
        i = nid; nid += 1
        names[i] = f"{'r' if kind == 'root' else 'n'}{i}"
        if kind == "node" and r.random() < 0.3:
            # a name DERIVED from another node's name: it is a proper prefix of this one (path arithmetic on strings must
            # respect the '/' boundary); names stay distinct
            others = [v for k, v in names.items() if k != i and not isroot.get(k, False)]
            if others:
                cand = r.choice(others) + r.choice(["_2", "_fit", "x", "b"])
                if cand not in names.values():
                    names[i] = cand
        st = {"do": kind, "name": names[i]}
        if kind == "node":
            # every built-in class, incl. containers that are EMPTY (len() == 0, i.e. falsy objects)
            st["cls"] = r.choice(["Node", "Node", "Node", "PointList0", "PointList0", "PointList", "Array", "PointListArray"])
        steps.append(st)
        parent[i] = None; isroot[i] = kind == "root"; rooted[i] = kind == "root"
        return i

    def root_of(x):
        while parent[x] is not None:
            x = parent[x]
        return x

    new("root")
    if scenario:
        # directed: two trees whose roots carry Metadata under overlapping names, an interior node with node-level Metadata of
        # such a name, and a graft of a branch of the one UNDER an interior node (or the root) of the other with any option —
        # the configuration in which "the receiving root's entries" and "the attachment node's entries" differ
        def md(x, name):
            steps.append({"do": "md", "node": x, "name": name, "content": r.randrange(5)})
        def add(p, c):
            steps.append({"do": "add", "parent": p, "child": c}); parent[c] = p; rooted[c] = True
        A = new("root"); md(A, "m"); md(A, r.choice(["cal", "a_only", ""]))
        a1 = new("node"); add(A, a1)
        a2 = new("node"); add(a1, a2)
        if r.random() < 0.5:
            md(r.choice([a1, a2]), r.choice(["shared", "m"]))
        B = new("root"); md(B, "m"); md(B, "shared")
        if r.random() < 0.3:
            md(B, "")
        b1 = new("node"); add(B, b1)
        b2 = new("node"); add(b1, b2)
        rv = r.choice([A, a1, a2, a2])
        steps.append({"do": "graft", "recv": rv, "scion": b1, "opt": r.choice(OPTS)})
        parent[b1] = rv
    for _ in range(nops):
        c = r.random()
        ids = list(parent)
        if c < 0.22 or len(ids) < 3:
            i = new("root" if r.random() < 0.3 else "node")
            if not isroot[i] and r.random() < 0.8:
                cands = [x for x in ids if rooted[x]]
                if cands:
                    p = r.choice(cands)
                    steps.append({"do": r.choice(["add", "add", "force"]), "parent": p, "child": i})
                    parent[i] = p; rooted[i] = True
        elif c < 0.22 + md_prob:
            x = r.choice([i for i in ids if isroot[i]] or ids)
            steps.append({"do": "md", "node": x, "name": r.choice(["m", "m", "cal", "cal", "shared", "shared", "only" + str(x), "only" + str(x), "", "m_copy", "_copy"]), "content": r.randrange(5)})
        elif c < 0.62:
            # graft scion under receiver (receiver not in scion's subtree, both rooted)
            sc = r.choice(ids)
            cands = [x for x in ids if rooted[x] and x not in descendants(sc) and rooted[sc]]
            if not cands or not rooted[sc]:
                continue
            rv = r.choice(cands)
            if isroot[sc] and root_of(rv) == sc:
                continue
            op = "force" if r.random() < 0.15 and not isroot[sc] else "graft"
            if op == "graft":
                steps.append({"do": "graft", "recv": rv, "scion": sc, "opt": r.choice(OPTS)})
            else:
                steps.append({"do": "force", "parent": rv, "child": sc})
            if isroot[sc]:
                for k in [k for k, p in parent.items() if p == sc]:
                    parent[k] = rv
            else:
                parent[sc] = rv
        elif c < 0.8:
            x = r.choice([i for i in ids if rooted[i]])
            steps.append({"do": "cut", "node": x, "opt": r.choice(list(cut_opts))})
            i = nid; nid += 1
            parent[i] = None; isroot[i] = True; rooted[i] = True; names[i] = "cutroot"
            if isroot[x]:
                for k in [k for k, p in parent.items() if p == x]:
                    parent[k] = i
            else:
                parent[x] = i
        elif c < 0.9:
            # forbidden operations: add a rooted node, add to an unrooted node
            a, b = r.choice(ids), r.choice(ids)
            if a != b and (rooted[b] or not rooted[a]):
                steps.append({"do": "add", "parent": a, "child": b})
        else:
            x = r.choice(ids)
            path = []
            y = x
            for _ in range(r.randrange(0, 3)):
                ks = [k for k, p in parent.items() if p == y]
                if not ks:
                    break
                y = r.choice(ks); path.append(names[y])
            s = "/".join(path)
            if r.random() < 0.3:
                s = "/" + s
            if r.random() < 0.15:
                s += "/nope"
            steps.append({"do": "get", "node": x, "path": s})
    # directed (state that leaks between calls): the SAME absolute lookup from the same Root before and after the branch it
    # names was cut off / grafted onto another tree — anything remembered from the first lookup is stale at the second
    if r.random() < 0.4:
        cands = [i for i in ids if rooted[i] and not isroot[i] and parent.get(i) is not None]
        if cands:
            x = r.choice(cands)
            path, y, ok = [], x, True
            while not isroot[y]:
                path.append(names[y]); y = parent.get(y)
                if y is None:
                    ok = False; break
            if ok:
                s = "/" + "/".join(reversed(path))
                steps.append({"do": "get", "node": y, "path": s})
                others = [i for i in ids if isroot[i] and i != y and rooted[i]]
                if others and r.random() < 0.5:
                    steps.append({"do": "graft", "recv": r.choice(others), "scion": x, "opt": r.choice(OPTS)})
                else:
                    steps.append({"do": "cut", "node": x, "opt": r.choice(list(cut_opts))})
                steps.append({"do": "get", "node": y, "path": s})
    # every operation is reached through its method or through the dispatcher `.tree(...)` (one or two spellings)
    for st in steps:
        if st["do"] in ("add", "force", "graft", "cut", "get"):
            st["via"] = r.choice(["method", "method", "tree", "tree2"])
    return steps


def cases(tier, seed):
    n = 200 if tier == "quick" else 4000
    for i in range(n):
        r = common.case_rng(seed, PID, i)
        yield {"steps": gen_steps(r, r.choice([4, 8, 12, 20, 30]) if tier == "quick" else r.choice([8, 20, 40]))}


def post(run, seen):
    """evaluate the hypothesis `legalSeq` of C12_history (names fresh, no graft onto an own descendant) on every history
    that was tested, with the Lean definition itself"""
    import subprocess, json
    lines = "".join(json.dumps(forest.model_steps(c["steps"])) + "\n" for c in seen)
    p = subprocess.run(["lake", "env", "lean", "--run", "scripts/LegalEval.lean"], cwd=common.LEAN, input=lines,
                       capture_output=True, text=True, timeout=600)
    out = p.stdout.split()
    if len(out) != len(seen):
        run.notes.append(f"hypothesis evaluation produced {len(out)} answers for {len(seen)} histories: {p.stderr[-300:]}")
        return
    run.count("history_meets_hypothesis_of_C12_history", out.count("true"))
    run.count("history_outside_hypothesis_of_C12_history", out.count("false"))
    run.notes.append(f"{out.count('true')} of {len(seen)} tested histories satisfy legalSeq, the hypothesis of C12_history "
                     f"(evaluated by the Lean definition)")


def run_both(drv, case):
    io = forest.run_impl(case["steps"])
    mo = forest.run_model(drv, case["steps"]) if drv is not None else None
    return io, mo


def wf_failure(heap):
    """the property, stated directly on a snapshot"""
    seen = {}
    def walk(n, rootid, path, depth):
        if n.get("cycle"):
            return {"cycle_at": n["id"]}
        if n["id"] in seen:
            return {"node_has_two_parents": n["id"]}
        seen[n["id"]] = True
        if n["root"] != rootid:
            return {"node": n["id"], "reports_root": n["root"], "is_in_tree_of": rootid}
        if rootid is not None and n["tp"] != path:
            return {"node": n["id"], "treepath": n["tp"], "actual_path": path}
        for c in n["k"]:
            f = walk(c, rootid, path + "/" + c["name"], depth + 1)
            if f:
                return f
        return None
    for c in heap["comps"]:
        if c.get("isroot"):
            f = walk(c, c["id"], "", 0)
        else:
            if c["k"]:
                return {"unrooted_node_with_children": c["id"]}
            if c["root"] is not None:
                return {"top_level_non_root_reports_root": c["id"]}
            seen[c["id"]] = True
            f = None
        if f:
            return f
    return None


def all_ids(heap):
    out = []
    def walk(n):
        out.append(n["id"])
        for c in n.get("k", []):
            walk(c)
    for c in heap["comps"]:
        walk(c)
    return sorted(out)


def oracle(case, obs):
    prev = None
    count = 0
    for idx, (st, o) in enumerate(zip(case["steps"], obs)):
        f = wf_failure(o["heap"])
        if f:
            return dict(f, step=idx, op=st)
        ids = all_ids(o["heap"])
        if len(set(ids)) != len(ids):
            return {"step": idx, "duplicated_node": ids}
        if st["do"] in ("root", "node"):
            count += 1
        if st["do"] == "cut" and isinstance(o["r"], dict):
            count += 1
        if len(ids) < count:
            return {"step": idx, "node_lost": {"have": ids, "created": count}}
        if o["r"] == forest.RAISED and prev is not None and st["do"] in ("add",):
            if o["heap"] != prev:
                return {"step": idx, "forbidden_operation_changed_the_forest": st}
        # a LEGAL move must happen: a graft / force-add of a rooted node under a rooted node that is not in its own subtree
        # (the hypothesis `legal` of C12_history, stated here on the snapshot before the operation) is not refused
        if o["r"] == forest.RAISED and prev is not None and st["do"] in ("graft", "force"):
            sc_id, rv_id = (st["scion"], st["recv"]) if st["do"] == "graft" else (st["child"], st["parent"])
            sc, rv = find_node(prev, sc_id), find_node(prev, rv_id)
            if sc is not None and rv is not None and sc["root"] is not None and rv["root"] is not None:
                below = set(all_ids({"comps": [sc]}))
                same_root_as_scion_root = sc.get("isroot") and rv["root"] == sc["id"]
                if rv_id not in below and not same_root_as_scion_root:
                    # names stay distinct in these forests, so there is no clash at the receiver either
                    clash = sc["name"] in [k["name"] for k in rv["k"]] if not sc.get("isroot") else \
                        any(k["name"] in [x["name"] for x in rv["k"]] for k in sc["k"])
                    if not clash:
                        return {"step": idx, "legal_move_was_refused": st, "scion": sc["name"], "receiver": rv["name"]}
        prev = o["heap"]
    return None


def find_node(heap, nid):
    def walk(n):
        if n["id"] == nid:
            return n
        for c in n["k"]:
            x = walk(c)
            if x:
                return x
        return None
    for c in heap["comps"]:
        x = walk(c)
        if x:
            return x
    return None


def known_match(case, fail, finding):
    return False


def nontrivial(case):
    return sum(1 for s in case["steps"] if s["do"] in ("graft", "cut", "force")) >= 2


def classify(case, obs):
    return [f"{s['do']}_{o['r'] if isinstance(o['r'], str) else 'node'}" for s, o in zip(case["steps"], obs)]


def shrink(case):
    s = case["steps"]
    for i in range(len(s) - 1, 0, -1):
        if s[i]["do"] not in ("root", "node"):
            yield {"steps": s[:i] + s[i + 1:]}
    if len(s) > 2:
        yield {"steps": s[:-1]}


def search_cases(tier, seed):
    yield from cases("thorough", seed + 67867967)
