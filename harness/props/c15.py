"""C15 — whatever save accepts, read returns: unsupported input is rejected at save time."""
import os
import numpy as np
import emdfile
from harness import common, gen, alpha, mdvals, arrays

PID = "C15"
RULE = ("the documented domain of C01-C04 extended by edge inputs one at a time, from a fixed catalogue plus seeded variations: "
        "metadata values of undocumented kinds (numpy scalars, bytes, sets, mixed / nested sequences, sequences of string tuples, "
        "the literal '_None', dicts with odd keys, huge ints, object arrays), names and keys containing '/', '.', '', reserved words "
        "or colliding with dataset names, zero-length axes and 0-d data, '_labels_' as a dim name, point data with sub-array "
        "fields / no fields / odd field names, very long names; for each: save either raises, or read must open the file and return "
        "content equal to what was saved; metadata edges are additionally compared with the Lean metadata model (which reproduces the "
        "writer's guard chain and the reader's dispatch); non-trivial = save succeeded; distinct by recipe hash")

MD_EDGES = [
    "np.float32(1.5)", "np.int8(-3)", "np.uint64(2**63)", "np.bool_(True)", "np.complex64(1+2j)", "np.float64('nan')",
    "b'raw bytes'", "bytearray(b'ab')", "{1, 2, 3}", "frozenset([1])", "range(3)", "2**70", "-2**63", "2**63",
    "(1, 'a')", "('a', 1)", "(1, (2, 3))", "((1, 2), ((3, 4), (5, 6)))", "(('a', 'b'), ('c',))", "((1, 2), 'x')", "((1, 2), (3,))",
    "((1, 2), [3, 4])", "((), ())", "(None, 1)", "(1, None)", "('a', None)", "(np.zeros(2), 1)", "(np.zeros(2), np.zeros((2, 2)))",
    "[[1, 2], [3, 4]]", "[(1, 2), (3, 4)]", "[1, 'a']", "['a', 1]", "[None]", "[{'a': 1}]", "({'a': 1},)", "[np.zeros(2), 3]",
    "'_None'", "''", "'a' * 70000", "'\\x00'", "'a\\x00b'",
    "np.array(['a', 'bc'])", "np.array([b'a', b'bc'])", "np.array([1, 'a'], dtype=object)", "np.array(None)", "np.zeros(())",
    "np.zeros((0,))", "np.zeros((2, 0, 3))", "np.array(5)", "np.array([[1, 2], [3, 4]])[::-1, ::2]",
    "np.zeros(3, dtype=[('a', 'f8'), ('b', 'i4')])", "np.datetime64('2020-01-01')", "np.array([1.5], dtype='>f4')",
    "{1: 2}", "{'a/b': 1}", "{'.': 1}", "{'': 1}", "{'a': {'b/c': 2}}", "{'metadatabundle': 1}", "{'x': {}}", "{}",
    "(True, False)", "[True, 1.5]", "(1.5, True)", "(np.float32(1), np.float32(2))", "[np.int8(1), 2.5]", "(1+2j, 3)",
    "float('inf')", "-0.0", "1e400", "complex('nan')", "object()", "np.float16(3.5)", "tuple([1] * 12)", "[np.zeros(1)] * 12",
    # sequences with more than ten members, of every kind the writer stores member by member (member names "10", "11" sort
    # before "2")
    "tuple((i, i * 10) for i in range(12))", "['s%d' % i for i in range(12)]", "tuple('s%d' % i for i in range(11))",
    "tuple(np.full(1, i) for i in range(12))", "[np.full((1, 2), i) for i in range(13)]", "tuple(range(12))", "[0.5 * i for i in range(11)]",
]
NAME_EDGES = ["a/b", "/abs", "a//b", ".", "..", "", " ", "metadatabundle", "data", "dim0", "_tmp_x", "x" * 300, "x" * 70000,
              "a\x00b", "tab\there", "new\nline", "ünï/cöde", "a.b", "-", "0",
              # names that only LOOK like the datasets a class keeps in its own group (prefixes / extensions of them)
              "dimensions", "dim_notes", "dim", "dim10", "datafile", "data_2", "metadata", "metadatabundle2", "_labels_"]


def cases(tier, seed):
    reps = 1 if tier == "quick" else 6
    for rep in range(reps):
        r = common.case_rng(seed, PID, rep)
        for e in MD_EDGES:
            where = r.choice(["top", "top", "nested"]) if rep else "top"
            yield {"kind": "md", "expr": e, "where": where}
        for nm in NAME_EDGES:
            for what in ("node", "root", "metadata", "key", "child_of_array", "pl_field", "dim_name", "units"):
                yield {"kind": "name", "name": nm, "what": what}
        for shape in ([0], [0, 3], [3, 0], [], [1], [2, 0, 2]):
            for lab in (None, True):
                yield {"kind": "array", "shape": shape, "labels": lab, "names": None}
        for names in (["a", "_labels_"], ["_labels_"], ["_labels_", "b"], [5, 6], [None, "x"], ["", ""]):
            yield {"kind": "array", "shape": [2, 3][:len(names)], "labels": None, "names": names}
        for pl in ("subarray", "unstructured", "nofields", "nested_struct", "object_field", "len0_subarray", "unicode_field", "scalar_record"):
            yield {"kind": "pl", "what": pl}
        for pla in ("zero_shape", "plain_dtype", "subarray"):
            yield {"kind": "pla", "what": pla}
        for empty in ("root_only", "node_leaf", "md_empty", "array_1", "deep50"):
            yield {"kind": "tree", "what": empty}


def md_case_items(case):
    v = {"t": "py", "expr": case["expr"]}
    if case["where"] == "nested":
        v = {"t": "dict", "items": [["inner", {"t": "dict", "items": [["k", v]]}]]}
    return [["k", v]]


def build_obj(case):
    """the object to save, and a function comparing what is read back with it"""
    k = case["kind"]
    if k == "md":
        data = {kk: gen.build_md_value(vv) for kk, vv in md_case_items(case)}
        r = emdfile.Root(name="r")
        r.metadata = emdfile.Metadata(name="m", data=data)
        return r
    if k == "name":
        nm, what = case["name"], case["what"]
        r = emdfile.Root(name="r" if what != "root" else nm)
        if what == "node":
            r.tree(emdfile.Node(name=nm))
        elif what == "metadata":
            r.metadata = emdfile.Metadata(name=nm, data={"x": 1})
        elif what == "key":
            r.metadata = emdfile.Metadata(name="m", data={nm: 1})
        elif what == "child_of_array":
            a = emdfile.Array(np.zeros(2), name="arr"); r.tree(a); a.tree(emdfile.Node(name=nm))
        elif what == "pl_field":
            r.tree(emdfile.PointList(np.zeros(2, dtype=[(nm, "f8")]), name="pl"))
        elif what == "dim_name":
            r.tree(emdfile.Array(np.zeros((2, 2)), name="arr", dim_names=[nm, "y"]))
        elif what == "units":
            r.tree(emdfile.Array(np.zeros((2, 2)), name="arr", units=nm, dim_units=[nm, "y"], dims=[[0, 1], [0, 1]]))
        return r
    if k == "array":
        kw = {}
        if case["labels"] is not None:
            kw["slicelabels"] = case["labels"]
        if case["names"] is not None:
            kw["dim_names"] = case["names"]
        r = emdfile.Root(name="r")
        r.tree(emdfile.Array(np.zeros(tuple(case["shape"])), name="arr", **kw))
        return r
    if k == "pl":
        w = case["what"]
        data = {"subarray": lambda: np.zeros(3, dtype=[("x", "f8", (2,)), ("y", "i4")]),
                "unstructured": lambda: np.zeros(3),
                "nofields": lambda: np.zeros(3, dtype=[]),
                "nested_struct": lambda: np.zeros(2, dtype=[("p", [("a", "f8"), ("b", "f8")])]),
                "object_field": lambda: np.zeros(2, dtype=[("o", "O")]),
                "len0_subarray": lambda: np.zeros(0, dtype=[("x", "f8", (2,))]),
                "unicode_field": lambda: np.zeros(2, dtype=[("s", "U3")]),
                "scalar_record": lambda: np.zeros((), dtype=[("x", "f8"), ("y", "i4")])}[w]()
        r = emdfile.Root(name="r")
        r.tree(emdfile.PointList(data, name="pl"))
        return r
    if k == "pla":
        w = case["what"]
        r = emdfile.Root(name="r")
        if w == "zero_shape":
            r.tree(emdfile.PointListArray([("x", float)], (0, 0), name="pla"))
        elif w == "plain_dtype":
            p = emdfile.PointListArray(float, (1, 2), name="pla"); r.tree(p)
        else:
            r.tree(emdfile.PointListArray([("x", float, (2,))], (1, 1), name="pla"))
        return r
    if k == "tree":
        w = case["what"]
        r = emdfile.Root(name="r")
        if w == "node_leaf":
            r.tree(emdfile.Node(name="n"))
        elif w == "md_empty":
            r.metadata = emdfile.Metadata(name="m", data={})
            r.tree(emdfile.Node(name="n"))
        elif w == "array_1":
            r.tree(emdfile.Array(np.zeros(1), name="a"))
        elif w == "deep50":
            cur = r
            for i in range(50):
                n = emdfile.Node(name=f"n{i}"); cur.tree(n); cur = n
        return r


def content(root):
    """kind-sensitive content of a runtime tree, for 'equal to what was saved'"""
    def node(n):
        d = {"name": n.name, "cls": type(n).__name__,
             "md": {k: mdvals.canon_items([[kk, mdvals.pv(vv)] for kk, vv in m._params.items()]) for k, m in n._metadata.items()},
             "kids": {k: node(c) for k, c in n._branch._dict.items()}}
        if isinstance(n, emdfile.Array):
            d["array"] = arrays.array_obs(n)
        elif isinstance(n, emdfile.PointList):
            dt = n.data.dtype
            d["pl"] = {"fields": sorted([str(f), dt.fields[f][0].str, alpha.array_token(n.data[f])] for f in (dt.names or ())),
                       "len": int(len(n)), "plain": dt.names is None and alpha.array_token(n.data)}
        elif isinstance(n, emdfile.PointListArray):
            d["pla"] = {"shape": list(n.shape), "dtype": str(np.dtype(n.dtype)),
                        "cells": [alpha.array_token(n[i, j].data) for i in range(n.shape[0]) for j in range(n.shape[1])]}
        return d
    return node(root)


def run_both(drv, case):
    obs = {"construct": "ok", "save": None, "read": None, "equal": None}
    p = common.fresh_path()
    try:
        try:
            with common.quiet():
                root = build_obj(case)
        except Exception as e:
            obs["construct"] = alpha.exc_kind(e)["err"]
            return obs, dict(obs)
        saved = None
        try:
            saved = content(root)
        except Exception:
            saved = "unobservable"
        try:
            with common.quiet():
                emdfile.save(p, root)
            obs["save"] = "ok"
        except Exception as e:
            obs["save"] = alpha.exc_kind(e)["err"]
        if obs["save"] == "ok":
            try:
                with common.quiet():
                    back = emdfile.read(p, emdpath=None if case["kind"] == "name" and case["what"] == "root" else "r", tree=None)
                if not isinstance(back, emdfile.Root):
                    back = back.root if hasattr(back, "root") and back.root is not None else back
                obs["read"] = "ok"
                try:
                    got = content(back)
                    obs["equal"] = (got == saved)
                    if not obs["equal"]:
                        obs["diff"] = first_diff(saved, got)
                except Exception as e:
                    obs["equal"] = False
                    obs["diff"] = "read-back content unobservable: " + type(e).__name__
            except Exception as e:
                obs["read"] = alpha.exc_kind(e)["err"]
    finally:
        if os.path.exists(p):
            os.remove(p)
    mo = dict(obs)
    if case["kind"] == "md" and drv is not None and obs["construct"] == "ok":
        # the Lean metadata model on the same value: must predict rejected-at-save / round-trips / reads-differently alike
        data = {kk: gen.build_md_value(vv) for kk, vv in md_case_items(case)}
        try:
            items_json = [[k, mdvals.pv(v)] for k, v in data.items()]
            ans = drv.ask({"op": "md", "items": mdvals.model_view(items_json)})
            if isinstance(ans.get("obj"), dict) and "outside the modelled domain" in str(ans["obj"].get("why", "")):
                obs = dict(obs, note="key outside the model's domain: oracle only")
                return obs, dict(obs)
            if isinstance(ans.get("obj"), dict) and "err" in ans["obj"]:
                pred = {"save": "error", "read": None, "equal": None}
            elif isinstance(ans.get("back"), dict) and "err" in ans["back"]:
                pred = {"save": "ok", "read": "error", "equal": None}
            else:
                pred = {"save": "ok", "read": "ok",
                        "equal": mdvals.canon_items(ans["back"]) == mdvals.canon_items(items_json)}
            mo = dict(obs, save=pred["save"], read=pred["read"], equal=pred["equal"])
            if "diff" in obs and pred["equal"] is not False:
                mo.pop("diff", None)
            if pred["equal"] is False and "diff" in obs:
                mo["diff"] = obs["diff"]
        except Exception as e:
            mo = dict(obs, model_unavailable=type(e).__name__)
    return obs, mo


def first_diff(a, b, path=""):
    if type(a) != type(b):
        return f"{path}: {str(a)[:80]} -> {str(b)[:80]}"
    if isinstance(a, dict):
        for k in a:
            if k not in b:
                return f"{path}/{k}: missing after read"
            d = first_diff(a[k], b[k], f"{path}/{k}")
            if d:
                return d
        for k in b:
            if k not in a:
                return f"{path}/{k}: appeared after read"
        return None
    if isinstance(a, list):
        if len(a) != len(b):
            return f"{path}: length {len(a)} -> {len(b)}"
        for i, (x, y) in enumerate(zip(a, b)):
            d = first_diff(x, y, f"{path}[{i}]")
            if d:
                return d
        return None
    return None if a == b else f"{path}: {str(a)[:80]} -> {str(b)[:80]}"


def oracle(case, obs):
    if obs["construct"] != "ok" or obs["save"] != "ok":
        return None                      # rejected before or at save time: what the property asks for
    if obs["read"] != "ok":
        return {"save_succeeded_but_read_raised": obs["read"]}
    if obs["equal"] is not True:
        return {"save_succeeded_but_read_returned_something_different": obs.get("diff")}
    return None


KNOWN_CLASSES = {
    "C15-K1": lambda c: c["kind"] == "md" and c["expr"] == "'_None'",
    "C15-K2": lambda c: (c["kind"] == "name" and "/" in c["name"] and c["what"] in ("node", "root", "metadata", "key", "pl_field", "child_of_array")) or
                        (c["kind"] == "md" and c["expr"] in ("{'a/b': 1}", "{'a': {'b/c': 2}}")),
    "C15-K7": lambda c: c["kind"] == "name" and "\x00" in c["name"] and c["what"] in ("node", "root", "metadata", "key", "pl_field", "child_of_array"),
    "C15-K3": lambda c: (c["kind"] == "array" and c.get("names") and "_labels_" in [x for x in c["names"] if isinstance(x, str)]) or
                        (c["kind"] == "name" and c["what"] == "dim_name" and c["name"] == "_labels_"),
    "C15-K4": lambda c: c["kind"] == "md" and c["expr"] in ("((1, 2), ((3, 4), (5, 6)))", "(('a', 'b'), ('c',))", "((1, 2), 'x')",
                                                             "((1, 2), [3, 4])", "((), ())", "(1, (2, 3))"),
    "C15-K5": lambda c: (c["kind"] == "pl" and c["what"] in ("subarray", "nofields", "nested_struct", "len0_subarray", "unstructured")) or
                        (c["kind"] == "pla" and c["what"] == "subarray"),
    "C15-K8": lambda c: c["kind"] == "pl" and c["what"] == "scalar_record",
    "C15-K6": lambda c: c["kind"] == "name" and c["what"] == "pl_field" and c["name"] == "metadatabundle",
}


def known_match(case, fail, finding):
    f = KNOWN_CLASSES.get(finding["id"])
    return bool(f and f(case))


def nontrivial(case):
    return True


def classify(case, obs):
    return [f"{case['kind']}_construct_{obs['construct']}", f"save_{obs['save']}", f"read_{obs['read']}", f"equal_{obs['equal']}"]


def search_cases(tier, seed):
    yield from cases("thorough", seed + 1)
