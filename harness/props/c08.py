"""C08 — partial read returns exactly the selected part and never modifies the file."""
from harness import common, gen, hist, alpha

PID = "C08"
RULE = ("seeded random files holding 1-3 trees; reads with every kind of emdpath (each node path with/without leading '/', "
        "absent paths, root only, none) x 3 tree options; sha256 of the file bytes before and after every read (successful or "
        "not); in a third of the cases the file CHANGES between reads (an append adding a root Metadata entry) and is read again; "
        "non-trivial = read of a non-root path or an absent path; distinct by recipe hash")


def mk_case(trees, reads, later=None):
    steps = []
    for i, tid in enumerate(trees):
        steps.append({"do": "save", "path": "A", "src": tid, "target": [], "mode": "w" if i == 0 else "a", "tree": True, "emdpath": None})
    steps.append({"do": "hash", "path": "A"})
    for (ep, opt) in reads:
        steps.append({"do": "read", "path": "A", "emdpath": ep, "tree": opt})
        steps.append({"do": "hash", "path": "A"})
    trees = dict(trees)
    if later is not None:
        # the file CHANGES between reads (an append that adds a root Metadata entry): what was read before must not stick
        tid2, t2, mode, reads2 = later
        trees[tid2] = t2
        steps.append({"do": "save", "path": "A", "src": tid2, "target": [], "mode": mode, "tree": True, "emdpath": None})
        steps.append({"do": "hash", "path": "A"})
        for (ep, opt) in reads2:
            steps.append({"do": "read", "path": "A", "emdpath": ep, "tree": opt})
            steps.append({"do": "hash", "path": "A"})
    return {"trees": trees, "steps": steps}


def cases(tier, seed):
    n = 120 if tier == "quick" else 1500
    for i in range(n):
        r = common.case_rng(seed, PID, i)
        nroots = r.choice([1, 1, 1, 2, 3])
        trees = {}
        names = set()
        for k in range(nroots):
            rn = gen.gen_name(r, names, odd=0.2)
            trees[f"T{k}"] = gen.gen_tree(r, rootname=rn, maxdepth=r.choice([2, 3, 4]), md=0.5)
        reads = []
        for _ in range(r.choice([3, 5, 8]) if tier == "quick" else 10):
            tid = r.choice(list(trees))
            t = trees[tid]
            kind = r.random()
            paths = gen.tree_paths(t)
            p = r.choice(paths)
            if kind < 0.6:
                ep = "/".join([t["name"]] + list(p))
            elif kind < 0.75:
                q = list(p) + [r.choice(["nope", "zz", "metadatabundle", "data"])]
                if r.random() < 0.5 and len(q) > 1:
                    q[r.randrange(len(q))] = "missing"
                ep = "/".join([t["name"]] + q)
            elif kind < 0.85:
                ep = None
            elif kind < 0.92:
                ep = r.choice(["nosuchroot", "nosuchroot/a", t["name"] + "/", ""])
            else:
                ep = "/".join([t["name"]] + list(p))
            if ep is not None and ep != "" and r.random() < 0.3:
                ep = "/" + ep
            reads.append((ep, r.choice([True, False, None])))
        later = None
        if r.random() < 0.35:
            import copy
            tid = r.choice(list(trees))
            t2 = copy.deepcopy(trees[tid])
            t2["md"] = list(t2.get("md", [])) + [{"name": "zz_added_later", "items": [["k", {"t": "int", "v": r.randrange(100)}]]}]
            pth = r.choice(gen.tree_paths(t2))
            reads2 = [(t2["name"], r.choice([True, None])), ("/".join([t2["name"]] + list(pth)), r.choice([True, False, None]))]
            later = (tid + "_later", t2, r.choice(["a", "ao", "append"]), reads2)
        yield mk_case(trees, reads, later)


def run_both(drv, case):
    iobs, msteps = hist.run_impl(case)
    hist.LAST["msteps"] = msteps
    mobs = hist.run_model(drv, msteps, len(iobs)) if drv is not None else None
    return hist.canon_list(iobs), (hist.canon_list(mobs) if mobs is not None else None)


def py_parse(ep):
    p = ep.split("/")
    if "" in p:
        p.remove("")
    if p[1:] == [""]:
        p = p[:1]
    return p


def oracle(case, obs):
    steps = case["steps"]
    msteps = hist.LAST["msteps"]
    srcs = {}
    h0 = None
    for k, (st, o) in enumerate(zip(steps, obs)):
        if st["do"] == "save":
            # what the file holds under that root name from now on (every save here writes a whole tree that extends what
            # the file held under the name)
            srcs[msteps[k]["src"]["root"]["n"]] = msteps[k]["src"]["root"]
        if st["do"] == "save" and o != {"ok": True}:
            return {"save_failed": o, "step": k}
        if st["do"] == "save":
            h0 = None          # a save may change the bytes; the reads after it must not
        if st["do"] == "hash":
            if h0 is None:
                h0 = o.get("hash")
            elif o.get("hash") != h0:
                return {"file_changed_by_read": k}
        if st["do"] == "read":
            ep, opt = st["emdpath"], st["tree"]
            if ep is None:
                if len(srcs) > 1:
                    if o.get("kind") != "rootnames" or sorted(o["names"]) != sorted(srcs):
                        return {"step": k, "expected_rootnames": sorted(srcs), "got": o}
                    continue
                ep = list(srcs)[0]
            parts = py_parse(ep) if ep != "" else []
            full = srcs.get(parts[0]) if parts else None
            node = hist.tree_at(full, parts[1:]) if full is not None else None
            if node is None:
                # a path that is not a node path must be reported as an error (tree=None on a non-node group is
                # outside the statement: it may return the bare root)
                if "err" not in o and not (opt is None and full is not None):
                    return {"step": k, "absent_path_not_error": ep, "got": o}
                continue
            if "err" in o:
                return {"step": k, "read_failed": o, "emdpath": ep}
            rel = parts[1:]
            if not rel:
                if opt is False:
                    want = {"kind": "node", "root": hist.alone(full), "path": []}
                elif opt is None:
                    want = {"kind": "node", "root": full, "path": []}
                else:
                    if len(full["k"]) == 1:
                        want = {"kind": "node", "root": full, "path": [full["k"][0]["n"]]}
                    elif len(full["k"]) == 0 and len(md_entries(full)) == 1:
                        want = {"kind": "metadata", "name": md_entries(full)[0][0], "obj": md_entries(full)[0][1]}
                    else:
                        want = {"kind": "node", "root": full, "path": []}
            else:
                if opt is False:
                    want = {"kind": "node", "root": dict(hist.alone(full), k=[hist.alone(node)]), "path": [node["n"]]}
                elif opt is True:
                    want = {"kind": "node", "root": dict(hist.alone(full), k=[node]), "path": [node["n"]]}
                else:
                    want = {"kind": "node", "root": dict(hist.alone(full), k=node["k"]), "path": []}
            if alpha.canon_obs(want) != o:
                return {"step": k, "emdpath": ep, "tree": opt, "expected": alpha.canon_obs(want), "got": o}
    return None


def md_entries(t):
    for k, o in t["b"]:
        if k == "metadatabundle":
            return o["k"]
    return []


def known_match(case, fail, finding):
    return False


def nontrivial(case):
    return any(s["do"] == "read" and s["emdpath"] and "/" in s["emdpath"].strip("/") for s in case["steps"])


def classify(case, obs):
    out = [f"roots_{len(case['trees'])}"]
    for s, o in zip(case["steps"], obs):
        if s["do"] == "read":
            out.append("read_err" if "err" in o else "read_" + o.get("kind", "?"))
    return out


def search_cases(tier, seed):
    yield from cases("thorough", seed + 7919)
