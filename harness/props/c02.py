"""C02 — Array round-trip: data, dtype, shape, units, calibrations and stack labels."""
from harness import common, arrays, alpha

PID = "C02"
RULE = ("seeded Arrays as in C14 (rank 1-6, every HDF5-representable dtype incl. bool / float16 / complex / fixed-width bytes / "
        "big-endian, C / Fortran / strided / reversed layouts, every dims form incl. non-linear and off-by-one-ulp 'nearly linear' "
        "vectors, any unicode units / names, stacks with full / partial / auto labels) written with Array.to_h5 and read with "
        "Array.from_h5; observations: which dim vectors are stored compressed (2 entries) and with what values (bit-exact), "
        "and the array read back; compared with the Lean codec and with the direct round-trip predicate; "
        "labels / units / names up to 600 bytes with long common prefixes; every third case changes one more calibration AFTER the "
        "first save and saves the same object a second time (body and read-back predicted by the model and checked directly); "
        "every eighth case holds its dim vectors in NARROW numpy dtypes (float32 / float16 ramps with non-dyadic steps, "
        "decreasing unsigned ramps, small ints): mixed-width arithmetic is numpy's, so these are decided by the direct "
        "round-trip predicate alone, not by the one-arithmetic Lean codec; "
        "non-trivial = at least one user-supplied dim vector; distinct by recipe hash")


def cases(tier, seed):
    n = 300 if tier == "quick" else 6000
    for i in range(n):
        r = common.case_rng(seed, PID, i)
        c = arrays.gen_case(r, allow_bad=False)
        if i % 8 == 5:
            c = arrays.narrow_dims(r, c)           # directed: dim vectors in narrow numpy dtypes (oracle-decided)
        yield c


def run_both(drv, case):
    io, objs = arrays.run_impl(case)
    LAST_LEAK[0] = arrays.LEAK[0]
    mo = arrays.model_obs(drv, case) if drv is not None and not case.get("narrow") else None
    return arrays.canon(io), (arrays.canon(mo) if mo is not None else None)


def final_obs(obs):
    cur = obs["ctor"]
    for s in obs["setters"]:
        if isinstance(s, dict) and "err" not in s and "skipped" not in s:
            cur = s
    return cur


def num_equal(a, b):
    if a == b:
        return True
    x, y = arrays.num_py(a), arrays.num_py(b)
    return x == y


LAST_LEAK = [None]


def oracle(case, obs):
    if LAST_LEAK[0] is not None:
        if "setter_on_one_array_changed_the_calibration_of_another" in LAST_LEAK[0]:
            return LAST_LEAK[0]
        return {"label_does_not_address_its_slice": LAST_LEAK[0]}
    a = final_obs(obs)
    if "err" in a:
        return None                # rejected at construction: nothing to round-trip
    if case["names"] and a["rank"] > 0 and a["dnames"][-1] == "_labels_" and not a["stack"]:
        return None
    f = roundtrip_fail(a, obs["body"], obs["back"])
    if f:
        return f
    rs = obs.get("resave")
    if rs:
        # the same object, changed once more and saved a second time, round-trips as it is NOW
        a2 = rs["after"] if isinstance(rs["after"], dict) and "err" not in rs["after"] else a
        f = roundtrip_fail(a2, rs["body"], rs["back"])
        if f:
            return dict(f, second_save_of_the_same_object=True, last_change=case.get("resave"))
    return None


def roundtrip_fail(a, body, b):
    if body is None or (isinstance(body, dict) and "err" in body):
        return {"save_failed": body}
    if b is None or "err" in b:
        return {"read_failed": b}
    for k in ("tok", "shape", "units", "stack", "labels", "dunits", "dnames", "rank", "depth", "ashape"):
        if a[k] != b[k]:
            return {"field": k, "saved": a[k], "read": b[k]}
    for n, (da, db) in enumerate(zip(a["dims"], b["dims"])):
        if len(da) != len(db) or not all(num_equal(x, y) for x, y in zip(da, db)):
            return {"axis": n, "dim_saved": da, "dim_read": db}
    # the file: exactly one dim dataset per axis, of length 2 or the extent
    names = sorted(k for k, _ in body if k.startswith("dim"))
    want = sorted(f"dim{i}" for i in range(len(a["shape"])))
    if names != want:
        return {"dim_datasets": names, "expected": want}
    return None


def known_match(case, fail, finding):
    if finding["id"] == "C02-K1":
        return "read_failed" in fail and bool(case.get("names")) and "_labels_" in case["names"]
    return False


def nontrivial(case):
    return any(d is not None for d in (case["dims"] or []))


def classify(case, obs):
    out = [f"dtype_{case['dtype']}", f"layout_{case['layout']}"]
    if case.get("narrow"):
        out += ["narrow_dim_dtype_" + d["dt"] for d in case["dims"]]
    if isinstance(obs.get("body"), list):
        for k, o in obs["body"]:
            if k.startswith("dim") and isinstance(o["v"], dict) and "nums" in o["v"]:
                out.append("stored_" + ("compressed" if len(o["v"]["nums"]) == 2 else f"full"))
    return out


def search_cases(tier, seed):
    yield from cases("thorough", seed + 472882027)
