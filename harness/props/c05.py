"""C05 — every file written is a well-formed EMD 1.0 file."""
from harness import common, gen, hist, alpha, customs
from harness.props import c09, c10

PID = "C05"
RULE = ("histories of 1-5 saves into one file over all modes (write, overwrite, append, append-over, with and without "
        "emdpath), all input kinds (nodes with every tree option, arrays, dicts, Metadata, lists) and random "
        "set_author/set_program settings; after every successful save the file is validated by an independent h5py-only "
        "validator (header incl. session author/program, tagged roots, tagged typed nodes, Array data/units/one dim per axis "
        "of length 2 or extent, tagged typed metadata bundles, nothing untagged, no scratch groups) and by the Lean validFile, "
        "and the package's own detector / version query are observed; every sixth case is a Custom node with node-valued attributes "
        "of every built-in class, of subclasses of them and nested Custom nodes, saved / appended-over and validated by both "
        "validators (the Lean one on the raw walk of the real file); non-trivial = >= 2 saves; distinct by recipe hash")


def node_names(rec, out):
    out.add(rec["name"])
    for k in rec.get("kids", []):
        node_names(k, out)


def cases(tier, seed):
    n = 100 if tier == "quick" else 1500
    for i in range(n):
        r = common.case_rng(seed, PID, i)
        if i % 6 == 4:
            # a Custom node with node-valued attributes of every class (built-in, subclasses, nested Custom)
            yield customs.gen_case(r)
            continue
        F, R = c09.gen_pair(r)
        planted = None
        if i % 5 == 2:
            # directed: the file holds a node and a sibling called like the writer's scratch name for it; the node is replaced
            planted = c09.plant_scratch_pair(r, F, R)
        T1 = gen.gen_tree(r, rootname="R1", maxdepth=2, md=0.5, classes=["Array", "Array", "Node", "PointList", "PointListArray"])
        X = gen.gen_tree(r, rootname="X0", maxdepth=2, odd=0.05)
        trees = {"F": F, "R": R, "T1": T1, "X": X}
        legit = set()
        for t in trees.values():
            node_names(t, legit)
        legit = sorted(x for x in legit if x.startswith("_tmp_"))
        steps = []
        if r.random() < 0.6:
            steps.append({"do": "session", "program": r.choice(["emdfile", "py4DSTEM", "prog é", ""]),
                          "user": r.choice(["", "alice", "Bob B.", "数据"])})
        first = True
        if planted is not None:
            for st in ({"do": "save", "path": "A", "src": "F", "target": [], "mode": "w", "tree": True, "emdpath": None},
                       {"do": "save", "path": "A", "src": "R", "target": [], "mode": r.choice(["ao", "appendover"]), "tree": True, "emdpath": None}):
                steps.append(st)
                steps.append({"do": "validate", "path": "A", "legit": legit})
                steps.append({"do": "info", "path": "A"})
            first = False
        if planted is None and i % 7 == 3:
            # directed: a FOREIGN ROOT (its name is not a root of the file) saved whole under an emdpath into an existing tree:
            # its children are grafted below the target, the Root itself is never written as a group inside another tree
            fp = gen.tree_paths(F)
            steps.append({"do": "save", "path": "A", "src": "F", "target": [], "mode": "w", "tree": True, "emdpath": None})
            steps.append({"do": "validate", "path": "A", "legit": legit})
            steps.append({"do": "save", "path": "A", "src": "X", "target": [], "mode": r.choice(["a", "ao"]), "tree": True,
                          "emdpath": ("/" if r.random() < 0.2 else "") + "/".join(["R0"] + list(r.choice(fp)))})
            steps.append({"do": "validate", "path": "A", "legit": legit})
            steps.append({"do": "info", "path": "A"})
            first = False
        for _ in range(r.choice([1, 2, 3, 4, 5]) if planted is None else r.choice([0, 1])):
            mode = r.choice(["w", "o"]) if first else r.choice(["a", "ao", "a", "ao", "o", "append", "appendover"])
            k = r.random()
            if k < 0.25:
                st = dict({"do": "save", "path": "A"}, **c09.gen_append(r, F, R, X))
                st["mode"] = mode if not st.get("emdpath") else st["mode"]
            elif k < 0.5:
                tid = r.choice(["F", "R", "T1"])
                st = {"do": "save", "path": "A", "src": tid, "target": list(r.choice(gen.tree_paths(trees[tid]))),
                      "mode": mode, "tree": r.choice([True, True, False, None]), "emdpath": None}
            elif k < 0.7:
                st = {"do": "save", "path": "A", "mode": mode, "tree": True, "emdpath": None,
                      "input": c10.gen_list(r, {"T1": T1, "F": F}, [])}
            elif k < 0.8:
                st = {"do": "save", "path": "A", "mode": mode, "tree": True, "emdpath": None,
                      "input": {"kind": "array", "rec": gen.gen_arr(r, maxrank=3) | {"shape": [r.randrange(1, 4), r.randrange(1, 3)]}}}
            elif k < 0.9:
                st = {"do": "save", "path": "A", "mode": mode, "tree": True, "emdpath": None,
                      "input": {"kind": "dict", "items": [[gen.gen_name(r, set()), gen.gen_md_value(r, 0, 3)] for _ in range(r.randrange(0, 4))]}}
            else:
                st = {"do": "save", "path": "A", "mode": mode, "tree": True, "emdpath": None,
                      "input": {"kind": "metadata", "rec": gen.gen_metadata(r, set(), maxdepth=3)}}
            steps.append(st)
            steps.append({"do": "validate", "path": "A", "legit": legit})
            steps.append({"do": "info", "path": "A"})
            first = False
            if r.random() < 0.15:
                steps.append({"do": "session", "program": r.choice(["emdfile", "other"]), "user": r.choice(["", "carol"])})
                # the header is written at creation only: a later session change must not invalidate the file, so the
                # validator is given the session at creation; keep it simple: stop the history here
                break
        yield {"trees": trees, "steps": steps, "continue_after_failure": False}


def run_both(drv, case):
    if "custom" in case:
        iobs, raws = customs.run_impl(case)
        mobs = customs.run_model(drv, iobs, raws) if drv is not None else None
        return alpha.canon_obs(iobs), (alpha.canon_obs(mobs) if mobs is not None else None)
    iobs, msteps = hist.run_impl(case)
    hist.LAST["msteps"] = msteps
    mobs = hist.run_model(drv, msteps, len(iobs)) if drv is not None else None
    return hist.canon_list(iobs), (hist.canon_list(mobs) if mobs is not None else None)


def oracle(case, obs):
    if "custom" in case:
        for idx, o in enumerate(obs):
            if o.get("r") == {"ok": True} and o.get("valid") is not True:
                return {"step": idx, "invalid_file_after_successful_save": o.get("why", o), "mode": o.get("save")}
        return None
    last_ok = False
    for idx, (st, o) in enumerate(zip(case["steps"], obs)):
        if st["do"] == "save":
            last_ok = o == {"ok": True}
        elif st["do"] == "validate" and last_ok:
            if o.get("valid") is not True:
                return {"step": idx, "invalid_file_after_successful_save": o.get("why", o)}
        elif st["do"] == "info" and last_ok:
            if o.get("is_emd") is not True or (o.get("version") or [None, None])[:2] != [1, 0]:
                return {"step": idx, "detector_disagrees": o}
    return None


def known_match(case, fail, finding):
    return False


def nontrivial(case):
    if "custom" in case:
        return True
    return sum(1 for s in case["steps"] if s["do"] == "save") >= 2


def classify(case, obs):
    if "custom" in case:
        return ["custom_node"] + [f"custom_attr_{a['cls']}{'_subclass' if a['sub'] else ''}" for a in case["custom"]["attrs"]]
    out = []
    for s, o in zip(case["steps"], obs):
        if s["do"] == "save":
            kind = "input_" + s["input"]["kind"] if "input" in s else ("emdpath" if s.get("emdpath") else "node")
            out.append(f"{kind}_{'ok' if o == {'ok': True} else o.get('err')}")
    return out


def search_cases(tier, seed):
    yield from cases("thorough", seed + 49979687)
