"""C07 — partial save writes exactly the selected part of the tree, always with the root."""
from harness import common, gen, hist, alpha

PID = "C07"
RULE = ("seeded random trees; every case picks a node (root / inner / leaf, any depth) as save target, one of the three tree "
        "options, rooted or unrooted; file raw-walked and compared with the selection spec computed from the source objects "
        "(oracle) and with the Lean model; trees hold nodes of all five classes incl. Custom nodes with node-valued attributes "
        "(public and private-looking attribute names) whose expected group content is stated without calling Custom.to_h5; 15 % of the deep cases RE-ARRANGE the tree first (a "
        "first-level node cut off, or grafted under another tree's Root) and save a strict descendant of the moved node; non-trivial = target is not the root or tree option is not True; distinct by recipe hash")


def mk_case(tree, target, opt, unrooted=None, prior=False):
    if unrooted is not None:
        return {"trees": {}, "unrooted": {"U": unrooted}, "steps": [
            {"do": "save", "path": "A", "src": "U", "mode": "w", "tree": opt, "emdpath": None},
            {"do": "walk", "path": "A"}, {"do": "info", "path": "A"}]}
    steps = [
        {"do": "save", "path": "A", "src": "T", "target": list(target), "mode": "w", "tree": opt, "emdpath": None},
        {"do": "walk", "path": "A"}, {"do": "info", "path": "A"}]
    if prior:
        # the SAME objects were saved before (whole tree, other file): a save must not depend on what was saved earlier
        steps = steps + [{"do": "save", "path": "B", "src": "T", "target": list(target), "mode": "w", "tree": opt, "emdpath": None},
                         {"do": "walk", "path": "B"}]
        steps = [{"do": "save", "path": "P", "src": "T", "target": [], "mode": "w", "tree": True, "emdpath": None},
                 {"do": "walk", "path": "P"}] + steps
    return {"trees": {"T": tree}, "steps": steps, "prior": bool(prior)}


def cases(tier, seed):
    n = 150 if tier == "quick" else 2000
    for i in range(n):
        r = common.case_rng(seed, PID, i)
        if r.random() < 0.12:
            cls = r.choice(gen.CLASSES)
            rec = {"name": gen.gen_name(r, set(), odd=0.3), "cls": cls, "pay": gen.gen_payload(r, cls), "md": [], "kids": []}
            if r.random() < 0.5:
                rec["md"] = [gen.gen_metadata(r, set())]
            yield mk_case(None, None, r.choice([True, False, None]), unrooted=rec)
            continue
        if r.random() < 0.3:
            # name stress: deep tree over a tiny pool of prefix-related names, shallow target, branch-writing options
            t = gen.gen_tree(r, rootname=r.choice(["a", "root", "ab"]), maxdepth=5, md=0.2, budget=[r.choice([8, 12, 16])],
                             tiny=True, classes=["Node", "Node", "Array"])
            paths = gen.tree_paths(t)
            shallow = [p for p in paths if 1 <= len(p) <= 2] or paths
            yield mk_case(t, r.choice(shallow), r.choice([True, None, True, False]))
            continue
        t = gen.gen_tree(r, rootname=gen.gen_name(r, set(), odd=0.2), maxdepth=r.choice([2, 3, 5]), md=0.5, classes=gen.CLASSES_C)
        paths = gen.tree_paths(t)
        deep = [p for p in paths if len(p) >= 2]
        if deep and r.random() < 0.15:
            # a tree that was RE-ARRANGED after it was built: a first-level node is cut off (it becomes the only child of a new
            # Root) or grafted directly under the Root of another tree — it lands on the tree path it had — and a strict
            # descendant of it is the save target: the file must name the root the node is under NOW
            tgt = r.choice(deep)
            a = tgt[0]
            if r.random() < 0.5:
                prep = [{"op": "cut", "tree": "T", "path": [a], "as": "C", "opt": r.choice([True, False, "copy"])}]
                trees, src = {"T": t}, "C"
            else:
                t2 = gen.gen_tree(r, rootname="other " + t["name"], maxdepth=1, md=0.7, avoid_prefix=[a])
                t2["kids"] = [k for k in t2["kids"] if k["name"] != a]
                prep = [{"op": "graft", "tree": "T", "path": [a], "onto": ["T2", []], "opt": r.choice([True, False, "copy"])}]
                trees, src = {"T": t, "T2": t2}, "T2"
            yield {"trees": trees, "prep": prep, "steps": [
                {"do": "save", "path": "A", "src": src, "target": list(tgt), "mode": "w", "tree": r.choice([True, False, None]), "emdpath": None},
                {"do": "walk", "path": "A"}, {"do": "info", "path": "A"}]}
            continue
        if tier == "thorough" and i % 4 == 0:
            for p in paths[:12]:
                for opt in (True, False, None):
                    yield mk_case(t, p, opt)
        else:
            p = r.choice(paths) if r.random() < 0.85 else ()
            # 'noroot' is the deprecated spelling of None; anything else is refused before the file is touched
            yield mk_case(t, p, r.choice([True, False, None, True, False, None, "noroot", "all"]), prior=r.random() < 0.3)


def run_both(drv, case):
    iobs, msteps = hist.run_impl(case)
    hist.LAST["msteps"] = msteps
    mobs = hist.run_model(drv, msteps, len(iobs)) if drv is not None else None
    return hist.canon_list(iobs), (hist.canon_list(mobs) if mobs is not None else None)


def expected_root(src, opt):
    """the spec: the single tree the file must hold, from alpha(source)"""
    if "unrooted" in src:
        u = dict(src["unrooted"], k=[])
        root = {"n": u["n"] + "_root", "c": "Root", "t": "root", "b": [], "k": [u]}
        target = [u["n"]]
    else:
        root, target = src["root"], src["target"]
    data = hist.tree_at(root, target)
    if not target:
        kids = [] if opt is False else root["k"]
    elif opt is False:
        kids = [hist.alone(data)]
    elif opt is True:
        kids = [data]
    else:
        kids = data["k"]
    return dict(hist.alone(root), k=kids)


def oracle(case, obs):
    off = 2 if case.get("prior") else 0
    if off:
        if obs[0] != {"ok": True}:
            return None          # the prior whole-tree save failed (collision …): nothing to compare
        obs = obs[2:]
        # the second save of the same selection (file B) must equal the first (file A)
        if len(obs) >= 5 and obs[0] == {"ok": True} and obs[3] == {"ok": True}:
            a, b = c11_blank(obs[1]), c11_blank(obs[4])
            if a != b:
                return {"same_selection_saved_twice_differs": True}
    src = hist.LAST["msteps"][off]["src"]
    opt = case["steps"][off]["tree"]
    if opt == "all":
        return None if "err" in obs[0] else {"invalid_tree_value_not_refused": obs[0]}
    if opt == "noroot":
        opt = None
    if obs[0] != {"ok": True}:
        return {"save_failed": obs[0]}
    roots = hist.file_roots(obs[1])
    want = hist.canon_tree(expected_root(src, opt))
    if list(roots.keys()) != [want["n"]]:
        return {"roots": list(roots.keys()), "expected": want["n"]}
    got = hist.canon_tree(roots[want["n"]])
    if got != want:
        return {"file_tree": got, "expected": want}
    extra = [k for k, o in obs[1]["h5"]["k"] if k != want["n"]]
    if extra:
        return {"extra_top_level": extra}
    if obs[2].get("is_emd") is not True:
        return {"info": obs[2]}
    return None


def c11_blank(walk):
    from harness.props import c11
    return c11.blank_uuid(alpha_canon(walk))


def alpha_canon(w):
    from harness import alpha
    return alpha.canon_obs(w)


def known_match(case, fail, finding):
    return False


def nontrivial(case):
    s = case["steps"][2 if case.get("prior") else 0]
    return bool(s.get("target")) or s["tree"] is not True or "unrooted" in case


def classify(case, obs):
    s = case["steps"][2 if case.get("prior") else 0]
    return [f"opt_{s['tree']}", "unrooted" if case.get("unrooted") else f"depth_{len(s.get('target', []))}"]


def shrink(case):
    if case.get("unrooted"):
        return
    s = case["steps"][0]
    for t in gen.shrink_tree(case["trees"]["T"]):
        if tuple(s["target"]) in gen.tree_paths(t):
            yield mk_case(t, s["target"], s["tree"])


def search_cases(tier, seed):
    for i in range(2000):
        r = common.case_rng(seed, PID, i, "search")
        t = gen.gen_tree(r, maxdepth=4, md=0.5)
        yield mk_case(t, r.choice(gen.tree_paths(t)), r.choice([True, False, None]))
