"""C06 — nodes are re-created as the class that wrote them, incl. downstream subclasses."""
import sys, types, os
import numpy as np
import emdfile
from harness import common, alpha, gen

PID = "C06"
RULE = ("seeded configurations of synthetic modules registered in sys.modules: 1-3 top-level modules with _emd_hook True / absent "
        "/ False / 1, sub-modules nested 0-6 deep (hooked or not), each exposing direct and indirect subclasses of Node / Array / "
        "PointList / PointListArray / Custom / Metadata and unrelated classes, all with distinct names; observations: (a) the class "
        "the lookup returns for every class name (identity) or an error, compared with the Lean registry model and with the "
        "expectation computed from the configuration; (b) a tree mixing instances of the findable classes with built-ins is saved "
        "and read back: every node and Metadata comes back as an instance of exactly its class, Custom attribute nodes are stored "
        "as custom_* groups, returned to the reader hook under their attribute names and never appear as tree children; (c) with a "
        "class removed before reading, read raises; sub-modules may ALSO be registered in sys.modules under their dotted name (a hooked "
        "sub-module of an un-hooked package is a starting point of its own); an attribute node of a Custom object may also belong "
        "to a tree of its own; non-trivial = a class nested >= 2 modules deep; distinct by recipe hash")
BASES = ["Node", "Array", "PointList", "PointListArray", "Custom", "Metadata"]
BUILTIN_IDS = {"Array": 0, "Custom": 1, "Metadata": 2, "Node": 3, "PointList": 4, "PointListArray": 5, "Root": 6}


def gen_module(r, depth, counter, maxdepth):
    """{"hook": True|False|1|None, "members": [[name, member]]}"""
    members = []
    for _ in range(r.choice([0, 1, 2, 3])):
        nm = f"K{counter[0]}"; counter[0] += 1
        c = r.random()
        if c < 0.75:
            base = r.choice(BASES)
            members.append([nm, {"cls": base, "indirect": r.random() < 0.3}])
        else:
            members.append([nm, {"cls": None}])           # a class unrelated to emdfile
    if depth < maxdepth:
        for _ in range(r.choice([0, 1, 1, 2]) if depth < 3 else r.choice([0, 1])):
            nm = f"sub{counter[0]}"; counter[0] += 1
            members.append([nm, gen_module(r, depth + 1, counter, maxdepth)])
    if r.random() < 0.3:
        members.append([f"x{counter[0]}", {"other": 1}]); counter[0] += 1
    hook = r.choice([True, True, True, None, False, 1]) if depth > 0 else r.choice([True, True, True, None, False, 1])
    return {"hook": hook, "members": sorted(members, key=lambda e: e[0])}


def cases(tier, seed):
    n = 120 if tier == "quick" else 2000
    for i in range(n):
        r = common.case_rng(seed, PID, i)
        counter = [0]
        mods = [[f"emdverif_mod_{k}", gen_module(r, 0, counter, r.choice([1, 3, 6, 7]))] for k in range(r.choice([1, 1, 2, 3]))]
        # a deliberately deep chain so that depths 5 and 6 are both exercised
        if r.random() < 0.5:
            chain = {"hook": True, "members": [["Kdeep", {"cls": r.choice(BASES), "indirect": False}]]}
            for d in range(r.choice([4, 5, 6])):
                chain = {"hook": True, "members": [[f"lvl{d}", chain]]}
            mods.append(["emdverif_chain", chain])
        # a sub-module reachable by TWO paths of different length (sub-modules import one another): the same module object
        # hangs under its parent and, as member `al`, under a hooked sibling whose name sorts first; the class sits at the
        # depth limit by the short path
        if r.random() < 0.4:
            depth_below = r.choice([3, 4, 4, 5])
            chain = {"hook": True, "members": [["Kshared", {"cls": r.choice(BASES), "indirect": False}]]}
            for d in range(depth_below - 1):
                chain = {"hook": True, "members": [[f"m{d}", chain]]}
            top = {"hook": True, "members": [["aaa", {"hook": True, "members": [["al", {"alias": ["shared"]}]]}],
                                             ["shared", chain]]}
            mods.append(["emdverif_graph", top])
        # sub-modules that are ALSO in sys.modules under their dotted name, as after `import pkg.sub`: a hooked module is a
        # starting point of the class search whatever its name, e.g. when its parent package does not opt in
        registered = []
        for name, m in mods:
            if not name.startswith("emdverif_mod_"):
                continue
            def subpaths(mm, pre):
                out = []
                for nm, mem in mm["members"]:
                    if "members" in mem:
                        out.append(pre + [nm])
                        out += subpaths(mem, pre + [nm])
                return out
            sp = subpaths(m, [])
            if sp and r.random() < 0.5:
                for pth in r.sample(sp, min(len(sp), r.choice([1, 1, 2]))):
                    registered.append([name, pth])
        yield {"modules": mods, "registered": registered, "remove": r.random() < 0.4, "seed": r.randrange(10**6)}


def expand(top):
    """the module tree the class search sees: an aliased module is simply walked again where it is met"""
    import copy
    def find(path):
        cur = top
        for nm in path:
            cur = dict(cur["members"])[nm]
        return cur
    def rec(m):
        out = []
        for nm, mem in m["members"]:
            if "alias" in mem:
                out.append([nm, rec(copy.deepcopy(find(mem["alias"])))])
            elif "members" in mem:
                out.append([nm, rec(mem)])
            else:
                out.append([nm, mem])
        return {"hook": m["hook"], "members": out}
    return rec(top)


class Built:
    def __init__(self, case):
        self.classes = {}       # name -> class object
        self.ids = dict(BUILTIN_IDS)
        self.objs = {"Array": emdfile.Array, "Custom": emdfile.Custom, "Metadata": emdfile.Metadata, "Node": emdfile.Node,
                     "PointList": emdfile.PointList, "PointListArray": emdfile.PointListArray, "Root": emdfile.Root}
        self.next = 7
        self.mods = []
        for name, m in case["modules"]:
            self.pending = []
            mod = self.build(name, m)
            for holder, nm, path in self.pending:
                cur = mod
                for part in path:
                    cur = getattr(cur, part)
                setattr(holder, nm, cur)            # the SAME module object under a second parent
            sys.modules[name] = mod
            for top, pth in case.get("registered", []):
                if top == name:
                    cur = mod
                    for part in pth:
                        cur = getattr(cur, part)
                    dotted = name + "." + ".".join(pth)
                    sys.modules[dotted] = cur
                    self.mods.append(dotted)
            self.mods.append(name)

    def mk_class(self, name, base, indirect):
        b = getattr(emdfile, base)
        if base == "Custom":
            def __init__(self, name="custom", n=2):
                emdfile.Custom.__init__(self, name=name)
                self.first = emdfile.Array(np.arange(n, dtype=float), name="first")
                self.second = emdfile.Node(name="second")
                self._hidden = emdfile.Node(name="hidden")        # a node attribute with a private-looking name is still data
            @classmethod
            def _get_constructor_args(cls, group):
                d = cls._get_emd_attr_data(cls, group)
                cls._last_attr_keys = sorted(d.keys())
                return {"name": os.path.basename(group.name), "n": int(d["first"].data.shape[0])}
            def _populate_instance(self, group):
                pass
            ns = {"__init__": __init__, "_get_constructor_args": _get_constructor_args, "_populate_instance": _populate_instance}
            b = type(name + "_base", (emdfile.Custom,), ns) if indirect else emdfile.Custom
            return type(name, (b,), {} if indirect else ns)
        if indirect:
            b = type(name + "_mid", (b,), {})
        return type(name, (b,), {})

    def build(self, name, m):
        mod = types.ModuleType(name)
        if m["hook"] is not None:
            mod._emd_hook = m["hook"]
        for nm, mem in m["members"]:
            if "alias" in mem:
                self.pending.append((mod, nm, mem["alias"]))
            elif "members" in mem:
                setattr(mod, nm, self.build(name + "." + nm, mem))
            elif "cls" in mem:
                if mem["cls"] is None:
                    c = type(nm, (), {})
                else:
                    c = self.mk_class(nm, mem["cls"], mem.get("indirect", False))
                self.classes[nm] = c
                self.objs[nm] = c
                self.ids[nm] = self.next; self.next += 1
                setattr(mod, nm, c)
            else:
                setattr(mod, nm, 12345)
        return mod

    def json_member(self, mem):
        if "members" in mem:
            j = {"mod": [[nm, self.json_member(x)] for nm, x in mem["members"]]}
            if mem["hook"] is not None:
                j["hook"] = mem["hook"]
            return j
        if "cls" in mem:
            return None
        return {"other": 1}

    def close(self):
        for n in self.mods:
            sys.modules.pop(n, None)


def model_modules(case, ids):
    def conv(mem, nm):
        if "members" in mem:
            j = {"mod": [[k, conv(x, k)] for k, x in mem["members"]]}
            if mem["hook"] is not None:
                j["hook"] = mem["hook"]
            return j
        if "cls" in mem:
            return {"cls": ids[nm], "emd": mem["cls"] is not None}
        return {"other": 1}
    out = []
    for name, m in case["modules"]:
        out.append([name, conv(expand(m), name)])
        for top, pth in case.get("registered", []):
            if top == name:
                out.append([name + "." + ".".join(pth), conv(sub_member(m, pth), pth[-1])])
    return out


def sub_member(m, pth):
    cur = m
    for nm in pth:
        cur = dict(cur["members"])[nm]
    return cur


def expected(case, ids):
    """lookup table expected from the configuration (the documented rule)"""
    dic = dict(BUILTIN_IDS)
    def walk(m, depth):
        if depth >= 6:
            return
        for nm, mem in m["members"]:
            if "members" in mem:
                if mem["hook"] in (True, 1):
                    walk(mem, depth + 1)
            elif "cls" in mem and mem["cls"] is not None:
                dic[nm] = ids[nm]
    for name, m in case["modules"]:
        if m["hook"] is True:
            walk(expand(m), 0)
        for top, pth in case.get("registered", []):
            if top == name:
                sm = sub_member(m, pth)
                if sm["hook"] is True:
                    walk(sm, 0)
    return dic


def lookup(name):
    class G:
        attrs = {"python_class": name}
    from emdfile.classes.utils import _get_class
    return _get_class(G())


def run_both(drv, case):
    b = Built(case)
    io = {"lookup": {}, "tree": None, "removed": None}
    try:
        names = sorted(b.ids)
        for n in names + ["NoSuchClass"]:
            try:
                c = lookup(n)
                found = [k for k, v in b.objs.items() if v is c]
                io["lookup"][n] = b.ids[found[0]] if found else "other-class"
            except Exception:
                io["lookup"][n] = "error"
        exp = expected(case, b.ids)
        usable = [n for n in b.classes if exp.get(n) == b.ids[n]]
        # (b) a tree mixing instances of findable classes with built-ins
        root = emdfile.Root(name="r")
        made = {}
        keep = []
        k = 0
        for n in usable[:6]:
            cls = b.classes[n]
            if emdfile.Metadata in cls.mro():
                m = cls(name=f"md{k}"); m["x"] = k
                root.metadata = m; made[f"md:{m.name}"] = n
            else:
                if emdfile.Array in cls.mro():
                    o = cls(data=np.arange(3.0), name=f"n{k}")
                elif emdfile.PointList in cls.mro():
                    o = cls(data=np.zeros(2, dtype=[("x", float)]), name=f"n{k}")
                elif emdfile.PointListArray in cls.mro():
                    o = cls(dtype=[("x", float)], shape=(1, 2), name=f"n{k}")
                elif emdfile.Custom in cls.mro():
                    o = cls(name=f"n{k}", n=3)
                    if k % 2 == 1:
                        # an attribute node that ALSO belongs to a tree of its own (e.g. it came from emd.read of another
                        # file): it is still an attribute of this object and is stored with it
                        elsewhere = emdfile.Root(name="elsewhere")
                        elsewhere.tree(o.second)
                        keep.append(elsewhere)
                else:
                    o = cls(name=f"n{k}")
                root.tree(o); made[f"node:{o.name}"] = n
                # a built-in child below it
                o.tree(emdfile.Node(name="child"))
            k += 1
        p = common.fresh_path()
        res = {}
        try:
            with common.quiet():
                emdfile.save(p, root)
                back = emdfile.read(p, emdpath="r", tree=None)
            for key, n in made.items():
                kind, nm = key.split(":")
                o = back.metadata[nm] if kind == "md" else back.tree(nm)
                res[key] = "same-class" if type(o) is b.classes[n] else type(o).__name__
                if kind == "node" and emdfile.Custom in b.classes[n].mro():
                    res[key + ":attrs"] = [type(o.first).__name__, type(o.second).__name__, sorted(o._branch._dict.keys()),
                                           getattr(b.classes[n], "_last_attr_keys", None)]
                    import h5py
                    with h5py.File(p, "r") as f:
                        g = f["r"][nm]
                        res[key + ":tags"] = sorted(str(g[x].attrs.get("emd_group_type")) for x in g.keys() if isinstance(g[x], h5py.Group))
        except Exception as e:
            res["exception"] = type(e).__name__
        io["tree"] = res
        io["made"] = made
        # (c) a class absent at read time
        if case["remove"] and made and os.path.exists(p):
            for n in b.mods:
                sys.modules.pop(n, None)
            try:
                with common.quiet():
                    emdfile.read(p, emdpath="r", tree=None)
                io["removed"] = "read-succeeded"
            except Exception:
                io["removed"] = "error"
        if os.path.exists(p):
            os.remove(p)
        mo = None
        if drv is not None:
            ans = drv.ask({"op": "registry", "modules": model_modules(case, b.ids), "names": names + ["NoSuchClass"]})
            mo = dict(io, lookup=ans)
        io["expected"] = {n: exp.get(n, "error") for n in names + ["NoSuchClass"]}
        if mo is not None:
            mo["expected"] = io["expected"]
    finally:
        b.close()
    return io, mo


def oracle(case, obs):
    for n, want in obs["expected"].items():
        if obs["lookup"].get(n) != want:
            return {"class": n, "lookup_returned": obs["lookup"].get(n), "expected": want}
    t = obs["tree"] or {}
    if "exception" in t:
        return {"roundtrip_of_findable_classes_raised": t["exception"]}
    for key, v in t.items():
        if key.endswith(":attrs"):
            if v[0] != "Array" or v[1] != "Node" or v[2] != ["child"] or v[3] != ["_hidden", "first", "second"]:
                return {"custom_attribute_nodes": v, "node": key}
        elif key.endswith(":tags"):
            if sorted(v) != sorted(["custom_array", "custom_node", "custom_node", "node"]):
                return {"custom_group_tags": v, "node": key}
        elif v != "same-class":
            return {"node": key, "came_back_as": v, "saved_as": obs["made"][key]}
    if obs["removed"] == "read-succeeded":
        return {"class_absent_at_read_time_but_read_succeeded": True}
    return None


def known_match(case, fail, finding):
    return False


def nontrivial(case):
    def depth(m):
        return 1 + max([depth(x) for _, x in m["members"] if "members" in x], default=0)    # aliases are not followed here
    return any(depth(m) >= 3 for _, m in case["modules"])


def classify(case, obs):
    out = []
    for n, v in obs["lookup"].items():
        out.append("lookup_" + ("error" if v == "error" else "found"))
    return out[:40]


def search_cases(tier, seed):
    yield from cases("thorough", seed + 334214459)
