"""C20 — version comparison is lexicographic.  Tie: translator (primary) + exhaustive correspondence."""
import itertools
from harness import common

PID = "C20"
RULE = ("all 27 orderings (each component <,=,> ) x boundary values {0,1,2,7,10^9,2^64} enumerated exhaustively, "
        "plus seeded random triples up to 2^70; twelve files written by the package in every creating mode at paths with a "
        "history (EMD / non-EMD / nothing, seen under both the str and the pathlib spelling), written under one spelling and "
        "asked for their version under the other; non-trivial = distinct (current,minimum) pair; "
        "tie to source: EmdGen.versionIsGeq is regenerated from utils._version_is_geq on every run and C20_lex re-proved")
EXHAUSTIVE = {"quick": False, "thorough": False}
VALS = [0, 1, 2, 7, 10**9, 2**64]


def cases(tier, seed):
    seen = set()
    # every ordering pattern with boundary values
    for pat in itertools.product((-1, 0, 1), repeat=3):
        for base in itertools.product(VALS[:4] if tier == "quick" else VALS, repeat=3):
            c, m = [], []
            for b, s in zip(base, pat):
                if s == 0:
                    c.append(b); m.append(b)
                elif s < 0:
                    c.append(b); m.append(b + 1)
                else:
                    c.append(b + 1); m.append(b)
            key = (tuple(c), tuple(m))
            if key not in seen:
                seen.add(key)
                yield {"c": c, "m": m}
    n = 300 if tier == "quick" else 5000
    for i in range(n):
        r = common.case_rng(seed, PID, i)
        c = [r.choice([r.randrange(4), r.randrange(2**70)]) for _ in range(3)]
        m = [x if r.random() < 0.4 else r.choice([r.randrange(4), r.randrange(2**70)]) for x in c]
        yield {"c": c, "m": m}
    # the version of files written by the package: several files, every creating mode, at paths that the package has seen
    # before holding an EMD file / a non-EMD file / nothing (common.fresh_path gives each path such a history)
    for k in range(12):
        yield {"c": [1, 0, 0], "m": [1, 0, 0], "written": True, "mode": ["w", "o", "a"][k % 3], "k": k}


def impl(case):
    import emdfile
    if case.get("written"):
        # the version reported for a file the package writes
        import numpy as np
        p = common.fresh_path()
        # the file is written under one spelling of its path and asked about under the other (str / pathlib.Path)
        import pathlib
        pw, pq = (pathlib.Path(p), p) if case.get("k", 0) % 2 else (p, pathlib.Path(p))
        try:
            with common.quiet():
                emdfile.save(pw, emdfile.Array(np.zeros(2)), mode=case.get("mode", "w"))
            v = emdfile._get_EMD_version(pq)
        except Exception as e:
            return {"r": False, "no_version_reported_for_a_file_the_package_wrote": type(e).__name__}
        # the triple goes into the helper AS THE PACKAGE REPORTED IT (whatever integer type the header gave it)
        try:
            return {"r": bool(emdfile._version_is_geq(v, (1, 0, 0))) and list(v) == case["c"]}
        except Exception as e:
            return {"r": False, "comparison_raised_on_the_reported_version": type(e).__name__}
    try:
        return {"r": bool(emdfile._version_is_geq(tuple(case["c"]), tuple(case["m"])))}
    except Exception as e:
        return {"r": "raised", "comparison_raised": type(e).__name__}


def model(drv, case):
    r = drv.ask({"op": "version_geq", "c": case["c"], "m": case["m"]})
    return r


def oracle(case, obs):
    want = tuple(case["c"]) >= tuple(case["m"])      # Python tuple comparison *is* lexicographic order
    if obs.get("r") != want:
        return {"expected": want, "got": obs.get("r")}
    return None


def known_match(case, fail, finding):
    return False


def nontrivial(case):
    return True


def search_cases(tier, seed):
    for i in range(20000):
        r = common.case_rng(seed, PID, i, "search")
        c = [r.randrange(5) for _ in range(3)]
        m = [r.randrange(5) for _ in range(3)]
        yield {"c": c, "m": m}
