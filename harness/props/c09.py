"""C09 — append is a name-based union; append-over additionally replaces common nodes."""
import copy
from harness import common, gen, hist, alpha

PID = "C09"
RULE = ("seeded pairs (file tree F, runtime tree R) derived from a common universe tree (nodes kept / dropped / re-classed with "
        "new content / extended on either side: disjoint, nested, overlapping, deeper either side, conflicting root metadata); "
        "save F, then 1-3 appends of R in mode a/ao with every kind of target: whole root, inner node x 3 tree options, "
        "with emdpath (node itself, parent, ancestor), foreign node / root under an emdpath; file raw-walked after every step; "
        "40 % of the universes hold a planted pair of siblings whose names are related (`x` / `x2`, `x` / `_tmp_x`: a proper prefix, "
        "the writer's scratch name) and, when such a pair exists, a quarter of the emdpath appends address exactly it; the Root "
        "itself is saved under an emdpath in 15 % of the emdpath appends; "
        "non-trivial = at least one node common to F and R and one node only in R; distinct by recipe hash")


def variant(r, rec, used_fresh, depth=0):
    """a variant of a subtree: children kept / dropped / changed, fresh children added"""
    out = dict(rec)
    if rec["cls"] != "Root" and r.random() < 0.5:
        cls = r.choice(_CLS[0]) if r.random() < 0.3 else rec["cls"]
        out["cls"] = cls
        out["pay"] = gen.gen_payload(r, cls)
    if r.random() < 0.4:
        out["md"] = [gen.gen_metadata(r, set(), maxdepth=1, nmax=3) for _ in range(r.choice([0, 1, 2]))]
        # keep names overlapping with the original sometimes
        for m, old in zip(out["md"], rec.get("md", [])):
            if r.random() < 0.6:
                m["name"] = old["name"]
        seen = set()
        out["md"] = [m for m in out["md"] if not (m["name"] in seen or seen.add(m["name"]))]
    kids = []
    reserved = gen.reserved_names(out) if out["cls"] != "Root" else {"metadatabundle"}
    for k in rec.get("kids", []):
        if k["name"] in reserved:
            continue
        if r.random() < 0.75:
            kids.append(variant(r, k, used_fresh, depth + 1))
    if depth < 4 and r.random() < 0.45:
        for _ in range(r.choice([1, 1, 2])):
            nm = f"new{len(used_fresh)}"
            used_fresh.add(nm)
            sub = gen.gen_tree(r, rootname="x", maxdepth=r.choice([0, 1, 2]), budget=[r.choice([0, 1, 3])], odd=0.05)
            cls = r.choice(_CLS[0])
            newk = {"name": nm, "cls": cls, "pay": gen.gen_payload(r, cls), "md": [], "kids": []}
            newk["kids"] = [k for k in sub["kids"] if k["name"] not in gen.reserved_names(newk)]
            kids.append(newk)
    # children must avoid the datasets of this (possibly new) class
    out["kids"] = [k for k in kids if k["name"] not in reserved]
    return out


_CLS = [gen.CLASSES]


def gen_pair(r, classes=None):
    """(file tree, runtime tree) over a common universe; `classes`: node classes to draw from (default: the four built-in ones)"""
    old = _CLS[0]
    _CLS[0] = classes or gen.CLASSES
    try:
        return _gen_pair(r)
    finally:
        _CLS[0] = old


def _gen_pair(r):
    U = gen.gen_tree(r, rootname="R0", maxdepth=r.choice([2, 3, 4]), odd=0.1, md=0.4, classes=_CLS[0])
    # names that start with (or equal) the root's name exercise the path arithmetic of targeted appends
    if U["kids"] and r.random() < 0.3:
        k = r.choice(U["kids"])
        nm = r.choice(["R0x", "R0", "R"])
        if nm not in [x["name"] for x in U["kids"]]:
            k["name"] = nm
    # a node and a SIBLING whose name merely starts with the node's name (scan / scan2), somewhere in the common universe
    if r.random() < 0.4:
        holders = []
        def collect(n):
            if n["kids"]:
                holders.append(n)
            for k in n["kids"]:
                collect(k)
        collect(U)
        if holders:
            h = r.choice(holders)
            k = r.choice(h["kids"])
            # ... or the writer's SCRATCH name for that node (`_tmp_<name>`), as an ordinary sibling
            nm = r.choice([k["name"] + "2", k["name"] + "_b", k["name"] + "x", "_tmp_" + k["name"], "_tmp_" + k["name"]])
            res = gen.reserved_names(h) if h["cls"] != "Root" else {"metadatabundle"}
            if nm not in [x["name"] for x in h["kids"]] and nm not in res:
                cls = r.choice(_CLS[0])
                h["kids"].append({"name": nm, "cls": cls, "pay": gen.gen_payload(r, cls), "md": [], "kids": []})
    fresh = set()
    F = variant(r, U, fresh)
    R = variant(r, U, fresh)
    return F, R


def mk_case(F, R, appends, foreign=None):
    trees = {"F": F, "R": R}
    if foreign is not None:
        trees["X"] = foreign
    steps = [{"do": "save", "path": "A", "src": "F", "target": [], "mode": "w", "tree": True, "emdpath": None},
             {"do": "walk", "path": "A"}]
    for ap in appends:
        steps.append(dict({"do": "save", "path": "A"}, **ap))
        steps.append({"do": "walk", "path": "A"})
    steps.append({"do": "read", "path": "A", "emdpath": "R0", "tree": None})
    return {"trees": trees, "steps": steps}


def gen_append(r, F, R, X):
    mode = r.choice(["a", "ao", "append", "appendover", "+", "oa"])
    kind = r.random()
    rp = gen.tree_paths(R)
    fp = gen.tree_paths(F)
    if kind < 0.3:
        return {"src": "R", "target": [], "mode": mode, "tree": True, "emdpath": None}
    if kind < 0.55:
        return {"src": "R", "target": list(r.choice(rp)), "mode": mode, "tree": r.choice([True, False, None]), "emdpath": None}
    if kind < 0.85:
        # directed, when the coincidence exists: a runtime node that is in the file, under the emdpath of a file SIBLING whose
        # name merely starts with the node's name
        if r.random() < 0.25:
            fps = set(tuple(p) for p in fp)
            pairs = [(list(t), list(s)) for t in rp if len(t) > 0 and tuple(t) in fps
                     for s in fp if len(s) == len(t) and tuple(s[:-1]) == tuple(t[:-1]) and s[-1] != t[-1] and s[-1].startswith(t[-1])]
            if pairs:
                t, sib = r.choice(pairs)
                eps = "/".join(["R0"] + sib)
                return {"src": "R", "target": t, "mode": mode, "tree": r.choice([True, None, None, False]), "emdpath": eps}
        tgt = list(r.choice(rp))
        if r.random() < 0.15:
            tgt = []            # the Root itself saved under an emdpath (C09_emdpath_from_root)
        # emdpath: the node itself, its parent, an ancestor, a node DOWNSTREAM of it in the file, a random file node, or a
        # path that is not in the file at all
        c = r.random()
        if c < 0.3:
            ep = tgt
        elif c < 0.5:
            ep = tgt[:-1]
        elif c < 0.6:
            ep = tgt[:r.randrange(0, len(tgt) + 1)]
        elif c < 0.8:
            below = [list(p) for p in fp if len(p) > len(tgt) and list(p[:len(tgt)]) == tgt]
            ep = r.choice(below) if below else tgt
        elif c < 0.87:
            # a SIBLING of the node in the file, by preference one whose name merely starts with the node's name
            sibs = [list(p) for p in fp if len(p) == len(tgt) and len(p) > 0 and list(p[:-1]) == tgt[:-1] and list(p) != tgt]
            pref = [p for p in sibs if tgt and p[-1].startswith(tgt[-1])]
            ep = r.choice(pref or sibs) if sibs else list(r.choice(fp))
        elif c < 0.93:
            ep = list(r.choice(fp))
        else:
            ep = list(r.choice(fp)) + ["no such node"] + (["deeper"] if r.random() < 0.5 else [])
        eps = "/".join(["R0"] + ep)
        if r.random() < 0.2:
            eps = "/" + eps
        return {"src": "R", "target": tgt, "mode": mode, "tree": r.choice([True, False, None]), "emdpath": eps}
    # foreign tree (root name not in the file) under an emdpath of the file: a node of the file, with or without a leading
    # slash, a path that is not in the file, one that is one node beyond it, or an unknown root
    xp = gen.tree_paths(X)
    c = r.random()
    if c < 0.75:
        ep = "/".join(["R0"] + list(r.choice(fp)))
    elif c < 0.85:
        ep = "/".join(["R0"] + list(r.choice(fp)) + ["no such node"])
    elif c < 0.93:
        ep = "/".join(["R0"] + list(r.choice(fp)) + ["no such node", "deeper"])
    else:
        ep = "/".join(["nosuchroot"] + list(r.choice(fp)))
    if r.random() < 0.25:
        ep = "/" + ep
    return {"src": "X", "target": list(r.choice(xp)), "mode": mode, "tree": r.choice([True, False, None]), "emdpath": ep}


def plant_scratch_pair(r, F, R):
    """directed coincidence: a node `x` that file and runtime tree share (same parent path), and in the FILE a sibling called
    like the writer's scratch name for it, `_tmp_x` — an ordinary node with a child of its own.  Returns the path of `x`."""
    def common_holders(f, rt, path):
        out = []
        fk = {k["name"]: k for k in f["kids"]}
        for k in rt["kids"]:
            if k["name"] in fk:
                out.append((f, rt, path, k["name"]))
                out += common_holders(fk[k["name"]], k, path + [k["name"]])
        return out
    cands = [c for c in common_holders(F, R, []) if ("_tmp_" + c[3]) not in (gen.reserved_names(c[0]) if c[0]["cls"] != "Root" else {"metadatabundle"})]
    if cands:
        f, rt, path, x = r.choice(cands)
    else:
        f, rt, path, x = F, R, [], "px"
        for t in (F, R):
            if "px" not in [k["name"] for k in t["kids"]]:
                t["kids"].append({"name": "px", "cls": "Node", "pay": {}, "md": [], "kids": []})
    if ("_tmp_" + x) not in [k["name"] for k in f["kids"]]:
        f["kids"].append({"name": "_tmp_" + x, "cls": "Node", "pay": {}, "md": [],
                          "kids": [{"name": "kept", "cls": "Node", "pay": {}, "md": [], "kids": []}]})
    return path + [x]


def cases(tier, seed):
    n = 150 if tier == "quick" else 2500
    for i in range(n):
        r = common.case_rng(seed, PID, i)
        F, R = gen_pair(r)
        X = gen.gen_tree(r, rootname="X0", maxdepth=2, odd=0.05, avoid_prefix=["R", "X"])
        # foreign names must not collide trivially everywhere: prefix them
        if i % 6 == 3:
            # directed: an append-over that REPLACES a node whose sibling in the file is called `_tmp_<its name>`
            px = plant_scratch_pair(r, F, R)
            how = r.random()
            if how < 0.5:
                ap = {"src": "R", "target": [], "mode": r.choice(["ao", "appendover", "oa"]), "tree": True, "emdpath": None}
            else:
                ap = {"src": "R", "target": px, "mode": r.choice(["ao", "+o"]), "tree": r.choice([True, False]), "emdpath": None}
            yield mk_case(F, R, [ap] + [gen_append(r, F, R, X) for _ in range(r.choice([0, 1]))], foreign=X)
            continue
        if i % 9 == 4:
            # directed: root Metadata under overlapping names — the runtime root carries entries the file has AND entries it
            # lacks, in either order (the union rule is per entry name, whatever the order of the entries)
            def md(name):
                m = gen.gen_metadata(r, set(), maxdepth=1, nmax=2)
                m["name"] = name
                return m
            fn = r.sample(["cal", "m", "notes", "é", "zz"], r.choice([1, 2, 3]))
            F["md"] = [md(n) for n in fn]
            new = [n for n in ["cal", "m", "notes", "é", "zz", "extra"] if n not in fn][:r.choice([1, 2])]
            rn = r.sample(fn, r.randrange(1, len(fn) + 1)) + new
            r.shuffle(rn)
            if r.random() < 0.6:
                # an entry the file has FIRST, one it lacks after it
                both = [n for n in rn if n in fn]; rest = [n for n in rn if n not in fn]
                rn = both[:1] + rest + both[1:]
            R["md"] = [md(n) for n in rn]
            first = {"src": "R", "target": [], "mode": r.choice(["a", "+", "append", "ao"]), "tree": r.choice([True, True, False]), "emdpath": None}
            yield mk_case(F, R, [first] + [gen_append(r, F, R, X) for _ in range(r.choice([0, 1]))], foreign=X)
            continue
        if i % 17 == 5:
            # the runtime tree IS the file tree (an append that has nothing to add: a no-op in append mode, a rewrite of the
            # same content in append-over mode), then a second, ordinary append
            import copy
            R = copy.deepcopy(F)
            first = {"src": "R", "target": [], "mode": r.choice(["a", "ao", "append", "appendover"]), "tree": True, "emdpath": None}
            yield mk_case(F, R, [first, gen_append(r, F, R, X)], foreign=X)
            continue
        appends = [gen_append(r, F, R, X) for _ in range(r.choice([1, 1, 2, 3]))]
        yield mk_case(F, R, appends, foreign=X)


def run_both(drv, case):
    iobs, msteps = hist.run_impl(case)
    hist.LAST["msteps"] = msteps
    mobs = hist.run_model(drv, msteps, len(iobs)) if drv is not None else None
    return hist.canon_list(iobs), (hist.canon_list(mobs) if mobs is not None else None)


def union(f, rt, over):
    """path-wise union of two tree JSONs (the spec of a whole-root append)"""
    out = dict(f)
    if over:
        out = dict(rt, k=None)
        # bodies: the runtime node's body replaces the file node's (for the root: metadata per entry name)
    kids = {k["n"]: k for k in f["k"]}
    order = [k["n"] for k in f["k"]]
    for k in rt["k"]:
        if k["n"] in kids:
            kids[k["n"]] = union(kids[k["n"]], k, over)
        else:
            kids[k["n"]] = k
            order.append(k["n"])
    out["k"] = [kids[n] for n in order]
    return out


def root_md_union(fb, rb, over):
    def entries(b):
        for k, o in b:
            if k == "metadatabundle":
                return o["k"]
        return None
    fe, re_ = entries(fb), entries(rb)
    if not re_:
        return fb
    m = dict((k, o) for k, o in (fe or []))
    for k, o in re_:
        if k not in m or over:
            m[k] = o
    bundle = ["metadatabundle", {"g": {"emd_group_type": "metadatabundle"}, "k": [[k, o] for k, o in m.items()]}]
    return [e for e in fb if e[0] != "metadatabundle"] + [bundle]


def oracle(case, obs):
    steps, ms = case["steps"], hist.LAST["msteps"]
    if obs[0] != {"ok": True}:
        return {"initial_save_failed": obs[0]}
    cur = None
    k = 0
    for idx, (st, o) in enumerate(zip(steps, obs)):
        if st["do"] == "walk":
            roots = hist.file_roots(o)
            if list(roots) != ["R0"]:
                return {"step": idx, "roots": list(roots)}
            new = roots["R0"]
            if cur is not None and last_save is not None and last_ok:
                over = last_save["mode"] in ("ao", "oa", "o+", "+o", "appendover")
                # frame: every node that was in the file is still there; in append mode with identical content
                before = {p: (c, t) for p, c, t in hist.tree_paths_json(cur)}
                after = {p: (c, t) for p, c, t in hist.tree_paths_json(new)}
                missing = [p for p in before if p not in after]
                if missing:
                    return {"step": idx, "lost_nodes": [list(p) for p in missing]}
                if not over:
                    for p in before:
                        a, b = hist.tree_at(cur, p), hist.tree_at(new, p)
                        if p == ():
                            continue
                        if alpha.canon_obs(hist.alone(a)) != alpha.canon_obs(hist.alone(b)):
                            return {"step": idx, "append_changed_existing_node": list(p)}
                # exact spec for whole-root appends
                if last_save["src"] == "R" and not last_save["target"] and last_save["emdpath"] is None and last_save["tree"] is True:
                    rt = last_ms["src"]["root"]
                    want = union(cur, rt, over)
                    want = dict(want, n="R0", c=cur["c"], t=cur["t"], b=root_md_union(cur["b"], rt["b"], over))
                    if alpha.canon_obs(want) != alpha.canon_obs(new):
                        return {"step": idx, "whole_root_append_differs_from_union": True,
                                "expected": alpha.canon_obs(want), "got": alpha.canon_obs(new)}
                # an emdpath naming a node UNRELATED to the saved node (C09_emdpath_unrelated_refused): must have been refused
                if last_save["src"] == "R" and last_save["target"] and last_save["emdpath"] and last_ok:
                    tgt = tuple(last_save["target"])
                    tp = tuple(p for p in last_save["emdpath"].split("/") if p != "")[1:]
                    tn = hist.tree_at(cur, tp)
                    if tp and hist.tree_at(cur, tgt) is not None and tn is not None and tp != tgt and tp[:len(tgt)] != tgt:
                        names_t = [k["n"] for k in tn["k"]] + [b[0] for b in tn["b"]]
                        if tgt[-1] not in names_t and alpha.canon_obs(new) != alpha.canon_obs(cur):
                            return {"step": idx, "append_under_an_unrelated_emdpath_was_not_refused_and_changed_the_file": True,
                                    "target": list(tgt), "emdpath": last_save["emdpath"], "tree": last_save["tree"]}
                # exact spec for a foreign node / root appended under an emdpath
                if last_save["src"] == "X" and last_ok:
                    want = foreign_spec(cur, last_ms, last_save)
                    if want is not None and alpha.canon_obs(want) != alpha.canon_obs(new):
                        return {"step": idx, "foreign_append_differs_from_spec": True, "tree": last_save["tree"],
                                "target": last_save["target"], "emdpath": last_save["emdpath"],
                                "expected": alpha.canon_obs(want), "got": alpha.canon_obs(new)}
            cur = new
        elif st["do"] == "save":
            last_save, last_ms, last_ok = st, ms[idx], (o == {"ok": True})
        elif st["do"] == "read":
            if "err" in o:
                return {"step": idx, "final_read_failed": o}
            if alpha.canon_obs(o.get("root")) != alpha.canon_obs(cur):
                return {"step": idx, "final_read_differs_from_file": True}
    return None


def foreign_spec(cur, ms, st):
    """file tree expected after appending a node / root of a foreign tree under an emdpath (None = not decided here)"""
    import copy
    x = ms["src"]["root"]
    data = hist.tree_at(x, ms["src"]["target"])
    ep = [p for p in st["emdpath"].split("/") if p != ""][1:]
    want = copy.deepcopy(cur)
    tgt = hist.tree_at(want, ep)
    if tgt is None or data is None:
        return None
    if not ms["src"]["target"]:
        add = data["k"] if st["tree"] is not False else None
    elif st["tree"] is False:
        add = [hist.alone(data)]
    elif st["tree"] is True:
        add = [data]
    else:
        add = data["k"]
    if add is None:
        return None
    tgt["k"] = tgt["k"] + copy.deepcopy(add)
    return want


def known_match(case, fail, finding):
    return False


def nontrivial(case):
    f = set(gen.tree_paths(case["trees"]["F"]))
    r = set(gen.tree_paths(case["trees"]["R"]))
    return len(f & r) > 1 and len(r - f) > 0


def classify(case, obs):
    out = []
    for s, o in zip(case["steps"][2:], obs[2:]):
        if s["do"] == "save":
            kind = "root" if not s["target"] and s["emdpath"] is None else ("emdpath" if s["emdpath"] else "node")
            out.append(f"append_{kind}_{'ok' if o == {'ok': True} else o.get('err')}")
    return out


def search_cases(tier, seed):
    yield from cases("thorough", seed + 104729)
