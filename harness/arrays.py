"""Array cases: recipes, construction on the real package, observations in the protocol's terms (C02 / C14)."""
import struct
import numpy as np
import emdfile
from harness import alpha, common, gen


def num_json(x):
    if isinstance(x, (bool, np.bool_)):
        return int(x)
    if isinstance(x, (int, np.integer)):
        return int(x)
    return {"f": struct.pack(">d", float(x)).hex()}


def num_py(j):
    if isinstance(j, dict):
        return struct.unpack(">d", bytes.fromhex(j["f"]))[0]
    return int(j)


def gen_num(r, kind):
    if kind == "int":
        return r.choice([0, 1, -1, 2, 5, -3, 10, 100, r.randrange(-50, 50)])
    v = r.choice([0.0, 0.1, 0.5, -0.25, 1.0, 1e-3, 0.3, 2.5, 1 / 3, 1e10, -0.0, r.uniform(-5, 5), r.choice([k / 10 for k in range(1, 30)]),
                  2.0 ** -r.randrange(1, 20)])
    return {"f": struct.pack(">d", v).hex()}


def gen_dim(r, extent):
    c = r.random()
    kind = r.choice(["int", "float", "float"])
    if c < 0.2:
        return None
    if c < 0.35:
        return {"num": gen_num(r, kind)}
    if c < 0.55:
        a = gen_num(r, kind); b = gen_num(r, kind)
        return {"vec": [a, b], "as": r.choice(["list", "list", "array"])}
    # full-length vector: linear, decreasing, non-linear, nearly linear, constant
    a0 = num_py(gen_num(r, kind)); st = num_py(gen_num(r, kind))
    shapek = r.choice(["linear", "linear", "nonlinear", "nearly", "constant", "mixed"])
    vals = [a0 + st * i for i in range(extent)]
    if shapek == "nonlinear" and extent > 2:
        vals[r.randrange(2, extent)] += (1 if kind == "int" else 0.37)
    elif shapek == "nearly" and extent > 2 and kind != "int":
        i = r.randrange(2, extent)
        vals[i] = float(np.nextafter(vals[i], np.inf))
    elif shapek == "constant":
        vals = [a0] * extent
    elif shapek == "mixed":
        vals = [float(v) if i % 2 else v for i, v in enumerate(vals)]
    if r.random() < 0.08:
        vals = vals + [vals[-1]] if r.random() < 0.5 else vals[:-1]          # wrong length (rejected)
    return {"vec": [num_json(v) for v in vals], "as": r.choice(["list", "array", "list"])}


NARROW = ["float32", "float32", "float16", "uint8", "int8", "uint16", "int16", "int32", ">f4"]


def narrow_dims(r, rec):
    """DIRECTED stream (C02): every axis gets a full-length numpy dim vector held in a dtype NARROWER than the 64-bit
    arithmetic of the linearity test and of the reader's re-expansion: float32 / float16 ramps with non-dyadic steps (linear
    only after rounding into that dtype), decreasing unsigned ramps (the step wraps), small signed ints.  The Lean codec is
    parametric in ONE arithmetic and is not asked about these (mixed-width arithmetic is numpy's, H2); they are decided by
    the direct round-trip predicate: what was saved is what is read, value by value."""
    shape = rec["shape"]
    nshape = shape[1:] if rec.get("labels") is not None else shape
    dims = []
    for ext in nshape:
        dt = r.choice(NARROW)
        if "f" in dt:
            a0 = r.choice([0.0, 0.1, -0.3, 1 / 3, 2.5, 1.0])
            st = r.choice([0.1, 0.3, 1 / 3, -0.1, 0.7, 0.5, 1e-3, 1.1])
        else:
            st = r.choice([1, 2, -1, -2, 3, -3])
            a0 = r.choice([0, 1, 5]) if st > 0 else (ext - 1) * -st + r.choice([0, 1, 4])
        vals = [a0 + st * i for i in range(ext)]
        if r.random() < 0.2 and ext > 2:
            vals[r.randrange(2, ext)] += 1
        dims.append({"vec": [num_json(v) for v in vals], "as": "array", "dt": dt})
    rec["dims"] = dims
    rec["narrow"] = True
    return rec


UNITS = ["nm", "A^-1", "Å", "", "pixels", "unknown", "a rather long unit name", "µm", "s", "u" * 70 + "é" * 100]
NAMES = ["rx", "ry", "qx", "qy", "x", "time", "dim0", "dim9", "énergie", "", "a b", "n" * 63 + "é" * 90]


def gen_case(r, allow_bad=True):
    rank = r.choice([1, 1, 2, 2, 3, 4, 5, 6])
    shape = [r.choice([1, 2, 3, 4, 7]) for _ in range(rank)]
    stack = r.random() < 0.3 and rank >= 1
    nrank = rank - 1 if stack else rank
    nshape = shape[1:] if stack else shape
    rec = {"dtype": r.choice(gen.DTYPES), "shape": shape, "seed": r.randrange(10**6), "units": r.choice(UNITS),
           "layout": r.choice(["C", "C", "F", "strided", "neg", "readonly"])}
    nd = r.choice([None, nrank, nrank, max(nrank - 1, 0), nrank + 1, 0])
    rec["dims"] = None if nd is None else [gen_dim(r, nshape[i] if i < nrank else 3) for i in range(nd)]
    for key, pool in (("names", NAMES), ("dunits", UNITS)):
        n = r.choice([None, nrank, nrank, max(nrank - 1, 0), nrank + 2])
        rec[key] = None if n is None else [r.choice(pool) for _ in range(n)]
    if stack:
        depth = shape[0]
        c = r.random()
        if c < 0.3:
            rec["labels"] = True
        elif c < 0.55:
            # the same few label names in different orders in different arrays (a label is only unique within its array)
            rec["labels"] = r.sample(LABEL_POOL, min(depth, len(LABEL_POOL)))
        elif c < 0.8:
            rec["labels"] = [f"L{i}" + r.choice(["", "é", " x"]) for i in range(r.choice([depth, depth, max(depth - 1, 0), depth + 1]))]
        elif c < 0.9:
            # LONG labels: beyond any fixed-width string type, sharing a long common prefix, multi-byte characters
            # straddling the usual widths (32 / 64 / 128 / 256 bytes)
            w = r.choice([31, 63, 127, 255])
            stem = r.choice(["x" * w, "x" * (w - 1) + "é" * 3, "é" * w])
            rec["labels"] = [stem + f"#{i}" for i in range(depth)]
        else:
            # an over-long list whose surplus labels REPEAT kept ones (the surplus is dropped; the kept ones are distinct)
            kept = [f"K{i}" for i in range(depth)]
            rec["labels"] = kept + [r.choice(kept) for _ in range(r.choice([1, 2, 3]))] if kept else []
    else:
        rec["labels"] = None
    rec["then"] = []
    for _ in range(r.choice([0, 0, 1, 2, 3])):
        n = r.randrange(0, nrank + 1) if allow_bad else r.randrange(0, max(nrank, 1))
        k = r.choice(["dim", "dim", "units", "name"])
        if k == "dim":
            st = {"set": "dim", "n": n, "dim": gen_dim(r, nshape[n] if n < nrank else 2)}
            if r.random() < 0.4:
                st["units"] = r.choice(UNITS)
            if r.random() < 0.3:
                st["name"] = r.choice(NAMES)
        elif k == "units":
            st = {"set": "units", "n": n, "units": r.choice(UNITS)}
        else:
            st = {"set": "name", "n": n, "name": r.choice(NAMES)}
        rec["then"].append(st)
    # a SECOND save of the same object after one more calibration change (what was decided at the first save must not
    # stick): the new vector has, as often as not, the other linearity
    if r.random() < 0.35 and nrank > 0:
        n = r.randrange(0, nrank)
        rec["resave"] = {"set": "dim", "n": n, "dim": gen_dim(r, nshape[n])}
        if r.random() < 0.3:
            rec["resave"]["units"] = r.choice(UNITS)
    return rec


def build_data(rec):
    a = gen.build_arr({"dtype": rec["dtype"], "shape": rec["shape"], "seed": rec["seed"]})
    lay = rec.get("layout", "C")
    if lay == "F":
        a = np.asfortranarray(a)
    elif lay == "strided" and a.ndim >= 1:
        big = np.repeat(a, 2, axis=0)
        a = big[::2]
    elif lay == "neg" and a.ndim >= 1:
        a = np.ascontiguousarray(a[::-1])[::-1]
    elif lay == "readonly":
        a = np.array(a)
        a.setflags(write=False)          # the caller's array may not be written to (e.g. a memory map opened read-only)
    return a


def py_dim(d):
    if d is None:
        return None
    if "num" in d:
        return num_py(d["num"])
    xs = [num_py(x) for x in d["vec"]]
    if d.get("as") == "array":
        if d.get("dt"):
            return np.array(xs).astype(d["dt"])          # a calibration vector held in a NARROW numpy dtype
        return np.array(xs) if xs else np.array([], dtype=float)
    return xs


def model_dim(d):
    if d is None:
        return None
    if "num" in d:
        return {"num": d["num"]}
    xs = d["vec"]
    if d.get("as") == "array" and any(isinstance(x, dict) for x in xs):
        # np.array of mixed ints and floats is float64
        xs = [x if isinstance(x, dict) else num_json(float(x)) for x in xs]
    return {"vec": xs}


def dim_json(d):
    """a dim vector as the package holds it: a python sequence (elements as they are) or a numpy array"""
    if isinstance(d, np.ndarray):
        if d.dtype.kind in "iu":
            return [int(x) for x in d.tolist()]
        return [num_json(float(x)) for x in d.tolist()]
    return [num_json(x) for x in d]


def array_obs(a):
    return {"tok": alpha.array_token(a.data), "shape": [int(s) for s in a.data.shape], "units": str(a.units),
            "stack": bool(a.is_stack), "labels": [str(s) for s in a.slicelabels] if a.is_stack else [],
            "dims": [dim_json(d) for d in a.dims],
            "dunits": [str(u) for u in a.dim_units], "dnames": [str(n) for n in a.dim_names],
            "rank": int(a.rank), "depth": int(a.depth), "ashape": [int(s) for s in a.shape]}


def body_obs(grp):
    import h5py
    out = []
    for k in grp.keys():
        o = grp[k]
        if not isinstance(o, h5py.Dataset):
            continue
        attrs = alpha.raw_attrs(o)
        if k == "data":
            v = alpha.dataset_token(o)
        elif o.dtype.kind in "iuf" and o.ndim == 1:
            v = {"nums": [num_json(x) for x in o[...].tolist()]}
        elif o.dtype.kind in "SO" and o.ndim == 1:
            v = {"strs": [x.decode("utf-8") if isinstance(x, bytes) else str(x) for x in o[...].tolist()]}
        else:
            v = alpha.dataset_token(o)
        out.append([k, {"d": attrs, "v": v}])
    return out


LEAK = [None]         # label-addressing failure found while running the last case (read by the oracles)
LABEL_POOL = ["mean", "max", "std", "a", "b", "sum"]
EARLIER = []          # stack arrays of earlier cases of this process: each must keep addressing its own slices


def same_vec(d1, d2):
    x1, x2 = list(np.asarray(d1).tolist()), list(np.asarray(d2).tolist())
    if len(x1) != len(x2):
        return False
    return all(u == v or (u != u and v != v) for u, v in zip(x1, x2))


def addresses_own_slices(a):
    """`ar[label]` / `get_slice(label)` returns slice i for the i-th label (distinct labels), with the calibrations the
    stack has NOW"""
    labels = [str(l) for l in a.slicelabels]
    if len(set(labels)) != len(labels):
        return None
    for i, l in enumerate(a.slicelabels):
        try:
            s = a.get_slice(l)
        except Exception as e:
            return {"label": str(l), "lookup_raised": type(e).__name__}
        if alpha.array_token(s.data) != alpha.array_token(a.data[i]):
            return {"label": str(l), "expected_slice": i, "returned_another_slice": True}
        try:
            cal = {"units": str(s.units) == str(a.units),
                   "dim_units": [str(u) for u in s.dim_units] == [str(u) for u in a.dim_units],
                   "dim_names": [str(u) for u in s.dim_names] == [str(u) for u in a.dim_names],
                   "dims": len(s.dims) == len(a.dims) and all(same_vec(x, y) for x, y in zip(s.dims, a.dims))}
        except Exception as e:
            return {"label": str(l), "slice_calibration_raised": type(e).__name__}
        if not all(cal.values()):
            return {"label": str(l), "slice_has_other_calibrations_than_the_stack": [k for k, v in cal.items() if not v],
                    "slice_dim_units": [str(u) for u in s.dim_units], "stack_dim_units": [str(u) for u in a.dim_units],
                    "slice_dim_names": [str(u) for u in s.dim_names], "stack_dim_names": [str(u) for u in a.dim_names]}
    return None


def check_earlier():
    for a in EARLIER:
        f = addresses_own_slices(a)
        if f:
            return dict(f, earlier_array_of_this_process=True, its_labels=[str(l) for l in a.slicelabels])
    return None


def remember(*objs):
    for a in objs:
        if a is not None and getattr(a, "is_stack", False) and a.depth > 0:
            EARLIER.append(a)
    del EARLIER[:-4]


def apply_setter(a, st):
    if st["set"] == "dim":
        a.set_dim(st["n"], py_dim(st["dim"]), units=st.get("units"), name=st.get("name"))
    elif st["set"] == "units":
        a.set_dim_units(st["n"], st["units"])
    else:
        a.set_dim_name(st["n"], st["name"])


def run_impl(rec):
    """returns the observation in the shape of the driver's answer to op 'array'"""
    out = {"ctor": None, "setters": [], "body": None, "back": None, "slices": None}
    LEAK[0] = None
    data = build_data(rec)
    kw = {}
    if rec["dims"] is not None:
        kw["dims"] = [py_dim(d) for d in rec["dims"]]
    if rec["names"] is not None:
        kw["dim_names"] = list(rec["names"])
    if rec["dunits"] is not None:
        kw["dim_units"] = list(rec["dunits"])
    if rec["labels"] is not None:
        kw["slicelabels"] = rec["labels"] if rec["labels"] is True else list(rec["labels"])
    import copy
    kw_before = copy.deepcopy({k: v for k, v in kw.items() if k != "dims"})
    try:
        with common.quiet():
            a = emdfile.Array(data=data, name="arr", units=rec["units"], **kw)
        out["ctor"] = array_obs(a)
    except Exception as e:
        out["ctor"] = alpha.exc_kind(e)
        return out, None
    leak = addresses_own_slices(a) if a.is_stack else None      # the labels are used BEFORE any change, too
    # the lists the caller passed (dim_units, dim_names, slicelabels) are the caller's: the constructor does not write into them
    changed = [k for k, v in kw_before.items() if kw.get(k) != v]
    if changed and leak is None:
        leak = {"constructor_modified_its_arguments": changed, "before": {k: kw_before[k] for k in changed},
                "after": {k: kw[k] for k in changed}}
    # directed (aliasing): a SECOND Array built from the very same argument objects (the same caller-owned dim vectors); nobody
    # touches it afterwards, so its calibrations must still be what it was given after every setter called on the first one
    twin, twin_before = None, None
    try:
        with common.quiet():
            twin = emdfile.Array(data=data, name="twin", units=rec["units"], **kw)
        twin_before = array_obs(twin)
    except Exception:
        twin = None
    for st in rec["then"]:
        try:
            apply_setter(a, st)
            out["setters"].append(array_obs(a))
        except Exception as e:
            out["setters"].append(alpha.exc_kind(e))
        if leak is None and twin is not None and array_obs(twin) != twin_before:
            leak = {"setter_on_one_array_changed_the_calibration_of_another": st, "other_before": twin_before,
                    "other_after": array_obs(twin)}
        if leak is None and a.is_stack:
            leak = addresses_own_slices(a)
            if leak:
                leak["after_setter"] = st
    g = alpha.scratch_group()
    try:
        with common.quiet():
            grp = a.to_h5(g)
        out["body"] = body_obs(grp)
        with common.quiet():
            b = emdfile.Array.from_h5(grp)
        out["back"] = array_obs(b)
    except Exception as e:
        if out["body"] is None:
            out["body"] = alpha.exc_kind(e)
        else:
            out["back"] = alpha.exc_kind(e)
        b = None
    if a.is_stack:
        out["slices"] = {str(l): int(a.slicelabels._dict[l]) for l in a.slicelabels}
    else:
        out["slices"] = {}
    # `ar[label]` for every label: which slice, and the calibrations of the Array returned (compared with the model's get_slice)
    out["slicecal"] = {}
    if a.is_stack and len(set(str(l) for l in a.slicelabels)) == len(a.slicelabels):
        for l in a.slicelabels:
            try:
                with common.quiet():
                    s = a.get_slice(l)
                out["slicecal"][str(l)] = {"idx": int(a.slicelabels._dict[l]), "units": str(s.units), "stack": bool(s.is_stack),
                                           "dims": [dim_json(d) for d in s.dims], "dunits": [str(u) for u in s.dim_units],
                                           "dnames": [str(n) for n in s.dim_names], "ashape": [int(x) for x in s.shape]}
            except Exception as e:
                out["slicecal"][str(l)] = alpha.exc_kind(e)
    # the same object saved a SECOND time after one more change
    if rec.get("resave") is not None:
        rs = {"after": None, "body": None, "back": None}
        try:
            apply_setter(a, rec["resave"])
            rs["after"] = array_obs(a)
        except Exception as e:
            rs["after"] = alpha.exc_kind(e)
        g2 = alpha.scratch_group()
        try:
            with common.quiet():
                grp2 = a.to_h5(g2)
            rs["body"] = body_obs(grp2)
            with common.quiet():
                rs["back"] = array_obs(emdfile.Array.from_h5(grp2))
        except Exception as e:
            if rs["body"] is None:
                rs["body"] = alpha.exc_kind(e)
            else:
                rs["back"] = alpha.exc_kind(e)
        out["resave"] = rs
    if leak is None and twin is not None and array_obs(twin) != twin_before:
        leak = {"setter_on_one_array_changed_the_calibration_of_another": rec.get("resave"), "other_before": twin_before,
                "other_after": array_obs(twin)}
    # state must not leak between Arrays: the arrays of this case and those of earlier cases still address their own slices
    for x in (a, b):
        if x is not None and x.is_stack and leak is None:
            leak = addresses_own_slices(x)
    if leak is None:
        leak = check_earlier()
    remember(a, b)
    LEAK[0] = leak
    return out, (a, b)


def model_req(rec):
    data = build_data(rec)
    req = {"op": "array", "shape": rec["shape"], "tok": alpha.array_token(data), "units": rec["units"],
           "dims": None if rec["dims"] is None else [model_dim(d) for d in rec["dims"]],
           "names": rec["names"], "dunits": rec["dunits"], "labels": rec["labels"],
           "then": [dict(st, dim=model_dim(st.get("dim"))) if st["set"] == "dim" else st for st in rec["then"]]}
    return req


def model_obs(drv, rec):
    """the model's answer, with the second save (if any) predicted by a second request whose setters include the last change"""
    mo = drv.ask(model_req(rec))
    if rec.get("resave") is not None and isinstance(mo, dict):
        rec2 = dict(rec, then=list(rec["then"]) + [rec["resave"]])
        m2 = drv.ask(model_req(rec2))
        if isinstance(m2, dict) and isinstance(m2.get("ctor"), dict) and "err" not in m2["ctor"]:
            last = m2["setters"][-1] if m2.get("setters") else None
            mo["resave"] = {"after": last, "body": m2.get("body"), "back": m2.get("back")}
    return mo


def canon(o):
    o = alpha.canon_obs(o)
    if isinstance(o, dict) and isinstance(o.get("ctor"), dict) and "err" in o["ctor"]:
        o = dict(o, setters=[], body=None, back=None, slices=None, slicecal=None)
    if isinstance(o, dict) and isinstance(o.get("slices"), dict) and isinstance(o.get("slicecal"), dict):
        # labels that are not distinct address their last occurrence; the per-label table is then not a function of the label
        labs = o["ctor"].get("labels", []) if isinstance(o.get("ctor"), dict) else []
        if len(set(labs)) != len(labs):
            o["slicecal"] = {}
    if isinstance(o, dict) and isinstance(o.get("body"), list):
        o["body"] = sorted(o["body"], key=lambda e: e[0])
    if isinstance(o, dict) and isinstance(o.get("resave"), dict) and isinstance(o["resave"].get("body"), list):
        o["resave"] = dict(o["resave"], body=sorted(o["resave"]["body"], key=lambda e: e[0]))
    return o
