"""Metadata values: abstraction of Python values into the protocol's PyVal JSON, canonical forms, raw walks (C03)."""
import struct
import numpy as np
import h5py
from numbers import Number
from harness import alpha


def f2h(x):
    return struct.pack(">d", float(x)).hex()


def num_kr(v):
    """(kind, repr) of a Python number"""
    if isinstance(v, bool):
        return ("bool", "true" if v else "false")
    if isinstance(v, int):
        return ("int", str(v))
    if isinstance(v, float):
        return ("float", f2h(v))
    if isinstance(v, complex):
        return ("complex", f2h(v.real) + "," + f2h(v.imag))
    return ("other", repr(v))


def store_token(v):
    """token of what h5py stores for create_dataset(data=v), or None if it refuses"""
    g = alpha.scratch_group()
    try:
        ds = g.create_dataset("x", data=v)
        return alpha.dataset_token(ds)
    except Exception:
        return None


def pv(v):
    """Python value -> PyVal JSON"""
    if v is None:
        return {"t": "none"}
    if isinstance(v, bool):
        return {"t": "bool", "v": v}
    if isinstance(v, np.bool_):
        return {"t": "npbool", "v": bool(v)}
    if isinstance(v, (np.integer, np.floating, np.complexfloating)):
        k, r = num_kr(v.item())
        return {"t": "npnum", "dtype": v.dtype.str, "kind": k, "repr": r}
    if isinstance(v, int) and not isinstance(v, bool) and not (-2**63 <= v < 2**63):
        # a Python int that does not fit int64: h5py raises OverflowError when asked to store it (contract H6);
        # the same value can legitimately come BACK from a uint64 dataset, so it stays a number with a flag
        return {"t": "num", "kind": "int", "repr": str(v), "big": True}
    if isinstance(v, (int, float, complex)):
        k, r = num_kr(v)
        return {"t": "num", "kind": k, "repr": r}
    if isinstance(v, str):
        if "\x00" in v:
            return {"t": "other", "kind": "str-with-NUL"}        # h5py refuses embedded NULs (contract H6)
        return {"t": "str", "v": v}
    if isinstance(v, bytes):
        return {"t": "bytes", "v": v.decode("latin1")}
    if isinstance(v, np.ndarray):
        if store_token(v) is None:
            return {"t": "other", "kind": "array-h5py-refuses"}  # unicode / object arrays (contract H6)
        return {"t": "arr", "tok": alpha.array_token(v)}
    if isinstance(v, (tuple, list)):
        return {"t": "tuple" if isinstance(v, tuple) else "list", "xs": [pv(x) for x in v], "st": store_token(v)}
    if isinstance(v, dict):
        if not all(isinstance(k, str) for k in v):
            return {"t": "other", "kind": "dict-with-non-str-keys"}
        return {"t": "dict", "items": [[str(k), pv(x)] for k, x in v.items()]}
    return {"t": "other", "kind": type(v).__name__}


def model_view(j):
    """the value as the model is told about it: what h5py refuses to store is an unsupported kind"""
    if isinstance(j, dict):
        if j.get("t") == "num" and j.get("big"):
            return {"t": "other", "kind": "int-beyond-int64"}
        return {k: model_view(v) for k, v in j.items()}
    if isinstance(j, list):
        return [model_view(x) for x in j]
    return j


def numlike(j):
    return j["t"] in ("bool", "num", "npnum", "npbool")


def canon_val(j):
    """canonical form for comparing what was saved / what was read: numeric sequences by the array numpy makes of
    them, numpy scalars by their Python value, dict items sorted"""
    t = j["t"]
    if t == "npnum":
        return {"t": "num", "kind": j["kind"], "repr": j["repr"]}
    if t in ("tuple", "list"):
        xs = j["xs"]
        if (not xs or numlike(xs[0])) and j.get("st") is not None:
            return {"t": "seq", "tuple": t == "tuple", "tok": j["st"]}
        out = []
        for x in xs:
            if x["t"] in ("tuple", "list") and x.get("st") is not None:
                out.append({"t": "seq", "tuple": True, "tok": x["st"]})
            elif x["t"] == "npnum":
                out.append({"t": "num", "kind": x["kind"], "repr": x["repr"]})
            elif x["t"] == "npbool":
                out.append({"t": "bool", "v": x["v"]})
            else:
                out.append(canon_val(x) if x["t"] == "dict" else x)
        return {"t": t, "xs": out}
    if t == "dict":
        return {"t": "dict", "items": sorted(([k, canon_val(v)] for k, v in j["items"]), key=lambda e: e[0])}
    return {k: v for k, v in j.items() if k not in ("st", "big")}


def canon_items(items):
    return sorted(([k, canon_val(v)] for k, v in items), key=lambda e: e[0])


def md_raw(o, parent_type=None):
    """raw walk of a Metadata group: scalar items (numbers, bools, strings, elements of a tuple of tuples) with their
    value, arrays and sequences as tokens"""
    if isinstance(o, h5py.Dataset):
        attrs = alpha.raw_attrs(o)
        t = attrs.get("type")
        scalar_ctx = t in ("number", "bool") or (t is None and parent_type == "tuple_of_tuples")
        if o.shape == () and o.dtype.kind in "biufc" and scalar_ctx:
            k, r = num_kr(o[()].item())
            v = {"scalar": {"kind": k, "repr": r}}
        elif o.shape == () and o.dtype.kind in "SO" and (t in ("string", "None") or
                (t is None and parent_type in ("tuple_of_strings", "list_of_strings", "tuple_of_tuples"))):
            x = o[()]
            v = {"bytes": (x.decode("utf-8") if isinstance(x, bytes) else str(x))}
        else:
            v = alpha.dataset_token(o)
        return {"d": attrs, "v": v}
    a = alpha.raw_attrs(o)
    return {"g": a, "k": [[k, md_raw(o[k], a.get("type"))] for k in o.keys()]}
