"""
Shared machinery of the checks: regeneration of EmdGen, lake build, axiom audit,
driver process, per-case PRNG, evidence, replay files, known findings.

Run with /venv/bin/python (emdfile is installed there as an editable install of
/repo/src, so the checks always see /repo's current working tree).
"""
import contextlib, fcntl, hashlib, io, json, os, random, re, shutil, subprocess, sys, tempfile, time

VERIF = os.path.dirname(os.path.dirname(os.path.abspath(__file__)))
LEAN = os.path.join(VERIF, "lean")
DRIVER = os.path.join(LEAN, ".lake", "build", "bin", "emd_driver")
REPO = os.environ.get("EMD_REPO", "/repo")
PY = sys.executable

ALLOWED_AXIOMS = {"propext", "Classical.choice", "Quot.sound"}
FORBIDDEN = re.compile(r"\b(sorry|admit|native_decide|bv_decide|implemented_by|unsafe)\b|^\s*axiom\s|maxHeartbeats\s+0\b", re.M)

TRUSTED_BASE = [
    "Lean 4.33.0 kernel; axioms allowed: propext, Classical.choice, Quot.sound (audited by #print axioms on every run)",
    "Lean compiler/runtime for the executable driver (compiled definitions agree with their logical meaning; Float ops are IEEE)",
    "hand-written model EmdModel being faithful to /repo: CHECKED by the correspondence run of this check on the generated cases only (differential testing)",
    "tools/py2lean.py (AST translator) and harness/*.py (abstraction function alpha, canonicalisation, oracles)",
    "h5py/numpy/HDF5 store contract H1-H7 of DESIGN.md section 4.2 (modelled, not verified; sampled every run)",
    "CPython semantics of isinstance/dict order/identity/exceptions as transcribed into the model",
]


# ----------------------------------------------------------------------------
# locking / building
# ----------------------------------------------------------------------------

@contextlib.contextmanager
def build_lock():
    os.makedirs(os.path.join(LEAN, ".lake"), exist_ok=True)
    with open(os.path.join(LEAN, ".lake", "verif.lock"), "w") as f:
        fcntl.flock(f, fcntl.LOCK_EX)
        try:
            yield
        finally:
            fcntl.flock(f, fcntl.LOCK_UN)


def regenerate():
    """Run the translator.  Returns its JSON report."""
    p = subprocess.run([PY, os.path.join(VERIF, "tools", "py2lean.py")], capture_output=True, text=True,
                       env=dict(os.environ, EMD_REPO=REPO))
    if p.returncode != 0:
        return {"unavailable": [["translator", p.stderr.strip()[-400:]]], "changed": [], "crashed": True}
    try:
        return json.loads(p.stdout.strip().splitlines()[-1])
    except Exception as e:  # pragma: no cover
        return {"unavailable": [["translator", f"unparsable output: {e}"]], "changed": [], "crashed": True}


def lake_build(targets, timeout=1500):
    t0 = time.time()
    p = subprocess.run(["lake", "build"] + list(targets), cwd=LEAN, capture_output=True, text=True, timeout=timeout)
    return p.returncode == 0, (p.stdout + p.stderr), time.time() - t0


def strip_comments(src):
    # remove /- ... -/ (nested) and -- ... comments
    out, i, depth, n = [], 0, 0, len(src)
    while i < n:
        if src.startswith("/-", i):
            depth += 1; i += 2; continue
        if depth and src.startswith("-/", i):
            depth -= 1; i += 2; continue
        if depth:
            if src[i] == "\n":
                out.append("\n")
            i += 1; continue
        if src.startswith("--", i):
            while i < n and src[i] != "\n":
                i += 1
            continue
        out.append(src[i]); i += 1
    return "".join(out)


def lean_files():
    for root, dirs, files in os.walk(LEAN):
        dirs[:] = [d for d in dirs if d not in (".lake",)]
        for f in files:
            if f.endswith(".lean"):
                yield os.path.join(root, f)


def grep_forbidden():
    hits = []
    for path in lean_files():
        with open(path, encoding="utf-8") as f:
            src = strip_comments(f.read())
        # string literals may legitimately contain words; drop them
        src = re.sub(r'"(\\.|[^"\\])*"', '""', src)
        for m in FORBIDDEN.finditer(src):
            line = src.count("\n", 0, m.start()) + 1
            hits.append(f"{os.path.relpath(path, LEAN)}:{line}:{m.group(0).strip()}")
    return hits


def property_theorems(pid):
    """Names of the theorems stated in EmdProps/<pid>.lean (the obligations of the property)."""
    path = os.path.join(LEAN, "EmdProps", f"{pid}.lean")
    if not os.path.exists(path):
        return []
    with open(path, encoding="utf-8") as f:
        src = strip_comments(f.read())
    return re.findall(r"^\s*theorem\s+(" + pid + r"_[A-Za-z0-9_']+)", src, re.M)


def audit_axioms(pid, theorems):
    """`#print axioms` for each property theorem.  Returns (dict name -> axioms list | None, raw output)."""
    if not theorems:
        return {}, ""
    body = f"import EmdProps.{pid}\n" + "".join(f"#print axioms EmdProps.{t}\n" for t in theorems)
    d = os.path.join(LEAN, ".lake", "audit")
    os.makedirs(d, exist_ok=True)
    path = os.path.join(d, f"Audit_{pid}_{os.getpid()}.lean")
    with open(path, "w") as f:
        f.write(body)
    try:
        p = subprocess.run(["lake", "env", "lean", path], cwd=LEAN, capture_output=True, text=True, timeout=600)
    finally:
        with contextlib.suppress(OSError):
            os.remove(path)
    out = p.stdout + p.stderr
    res = {}
    flat = re.sub(r"\s+", " ", out)
    for t in theorems:
        m = re.search(r"'EmdProps\." + re.escape(t) + r"' depends on axioms: \[([^\]]*)\]", flat)
        if m:
            res[t] = [a.strip() for a in m.group(1).split(",") if a.strip()]
        elif re.search(r"'EmdProps\." + re.escape(t) + r"' does not depend on any axioms", flat):
            res[t] = []
        else:
            res[t] = None
    return res, out


class ProofStatus:
    def __init__(self):
        self.obligations = 0
        self.discharged = 0
        self.broken = []          # names / descriptions of obligations that do not check
        self.theorems = []
        self.axioms = {}
        self.translator = {}
        self.build_log_tail = ""
        self.driver_ok = False
        self.build_s = 0.0


def build_and_audit(pid, extra_modules=()):
    """Regenerate EmdGen, build model + driver + this property's theorems, audit.
    Never raises for a failed proof: returns a ProofStatus describing what does not check."""
    st = ProofStatus()
    with build_lock():
        st.translator = regenerate()
        for frag, why in st.translator.get("unavailable", []):
            # recorded; dependents' build failure (if any) is what counts as broken
            pass
        ok_drv, log_drv, s1 = lake_build(["EmdModel", "EmdGen", "EmdDriver", "emd_driver"])
        st.driver_ok = ok_drv and os.path.exists(DRIVER)
        mods = [f"EmdProps.{pid}"] + list(extra_modules)
        ok_p, log_p, s2 = lake_build(mods)
        st.build_s = s1 + s2
        st.theorems = property_theorems(pid)
        st.obligations = len(st.theorems) + 1          # +1: the audit (no sorry/axiom/native_decide anywhere)
        if not ok_drv:
            st.broken.append("build:EmdModel/emd_driver")
            st.build_log_tail = log_drv[-3000:]
        if not ok_p:
            st.build_log_tail = (st.build_log_tail + "\n" + log_p)[-4000:]
            failing = set()
            for m in re.finditer(r"error: (\S+\.lean):(\d+):\d+", log_p):
                failing.add((m.group(1), int(m.group(2))))
            named = set()
            # map error lines to theorem names of this property file
            path = os.path.join(LEAN, "EmdProps", f"{pid}.lean")
            if os.path.exists(path):
                with open(path, encoding="utf-8") as f:
                    lines = f.read().splitlines()
                for (fn, ln) in failing:
                    if fn.endswith(f"EmdProps/{pid}.lean"):
                        for k in range(min(ln, len(lines)) - 1, -1, -1):
                            m = re.match(r"\s*theorem\s+(" + pid + r"_[A-Za-z0-9_']+)", lines[k])
                            if m:
                                named.add(m.group(1)); break
            others = sorted({fn for (fn, ln) in failing if not fn.endswith(f"EmdProps/{pid}.lean")})
            if named:
                st.broken += sorted(f"theorem:{n}" for n in named)
            if others:
                st.broken += [f"lemma-file:{o}" for o in others]
            if not named and not others:
                st.broken.append(f"build:EmdProps.{pid}")
            st.discharged = 0
        else:
            st.axioms, raw = audit_axioms(pid, st.theorems)
            good = 0
            for t in st.theorems:
                ax = st.axioms.get(t)
                if ax is None:
                    st.broken.append(f"audit:{t}:no-axiom-report")
                elif not set(ax) <= ALLOWED_AXIOMS:
                    st.broken.append(f"audit:{t}:axioms:{','.join(sorted(set(ax) - ALLOWED_AXIOMS))}")
                else:
                    good += 1
            hits = grep_forbidden()
            if hits:
                st.broken.append("audit:forbidden-token:" + ";".join(hits[:5]))
            else:
                good += 1
            st.discharged = good
    return st


# ----------------------------------------------------------------------------
# driver
# ----------------------------------------------------------------------------

class Driver:
    def __init__(self):
        self.p = subprocess.Popen([DRIVER], stdin=subprocess.PIPE, stdout=subprocess.PIPE, text=True, bufsize=1,
                                  encoding="utf-8")
        self.lines = 0

    def ask(self, obj):
        line = json.dumps(obj, ensure_ascii=True, separators=(",", ":"))
        try:
            self.p.stdin.write(line + "\n"); self.p.stdin.flush()
            out = self.p.stdout.readline()
        except BrokenPipeError:
            out = ""
        self.lines += 1
        if not out:
            return {"bad": "driver-died"}
        try:
            return json.loads(out)
        except Exception:
            return {"bad": "unparsable:" + out[:200]}

    def close(self):
        with contextlib.suppress(Exception):
            self.p.stdin.close()
        with contextlib.suppress(Exception):
            self.p.wait(timeout=5)
        with contextlib.suppress(Exception):
            self.p.kill()


# ----------------------------------------------------------------------------
# per-case randomness, canonical JSON, scratch
# ----------------------------------------------------------------------------

def case_rng(seed, pid, index, stream="main"):
    h = hashlib.sha256(f"{seed}|{pid}|{stream}|{index}".encode()).digest()
    return random.Random(int.from_bytes(h[:8], "big"))


def canon(o):
    """Canonical JSON text for hashing/diffing (sorted keys)."""
    return json.dumps(o, sort_keys=True, ensure_ascii=True, separators=(",", ":"))


def comparable(o):
    """form in which model and implementation observations are compared: WHICH exception a failing call raises
    (AssertionError vs. anything else) is not part of any property — they say "raises" / "fails" / "is refused" — so a
    harmless change of an `assert` into a `raise ValueError` must not read as a disagreement"""
    if isinstance(o, dict):
        if "err" in o:
            return {"err": "raised"}
        return {k: comparable(v) for k, v in o.items()}
    if isinstance(o, list):
        return [comparable(v) for v in o]
    return o


def digest(o):
    return hashlib.sha256(canon(o).encode()).hexdigest()[:16]


_SCRATCH = None


def scratch():
    global _SCRATCH
    if _SCRATCH is None:
        base = "/dev/shm" if os.path.isdir("/dev/shm") and os.access("/dev/shm", os.W_OK) else tempfile.gettempdir()
        _SCRATCH = tempfile.mkdtemp(prefix="emdverif_", dir=base)
        import atexit
        atexit.register(lambda: shutil.rmtree(_SCRATCH, ignore_errors=True))
    return _SCRATCH


_counter = [0]


def fresh_path(suffix=".h5"):
    """a path with nothing at it.  Names are RECYCLED (48 of them per suffix): a later case gets a path an earlier case of
    the same process used for another file, so that anything the package remembers per path (a cache keyed by file name)
    shows up as a wrong answer instead of staying invisible behind ever-new names"""
    _counter[0] += 1
    p = os.path.join(scratch(), f"f{os.getpid()}_{_counter[0] % 48}{suffix}")
    if os.path.isdir(p):
        shutil.rmtree(p, ignore_errors=True)
    elif os.path.exists(p):
        os.remove(p)
    if suffix == ".h5" and os.environ.get("VERIF_PATH_HISTORY", "1") != "0":
        _give_history(p, _counter[0] % 3)
    return p


class OperationTimeout(Exception):
    pass


@contextlib.contextmanager
def time_limit(seconds):
    """a call into the package that does not come back (e.g. a walk over a tree that a changed operation has made cyclic) is
    cut off and counts as a raised exception: a check must terminate whatever the code under test does"""
    import signal, threading
    if threading.current_thread() is not threading.main_thread() or not hasattr(signal, "setitimer"):
        yield
        return
    def handler(signum, frame):
        raise OperationTimeout(f"no answer within {seconds} s")
    old = signal.signal(signal.SIGALRM, handler)
    signal.setitimer(signal.ITIMER_REAL, seconds)
    try:
        yield
    finally:
        signal.setitimer(signal.ITIMER_REAL, 0)
        signal.signal(signal.SIGALRM, old)


def _give_history(p, kind):
    """before a path is handed out, the package has already SEEN it holding something else: an EMD 1.0 file it read
    (kind 1) or an HDF5 file that is not an EMD file and that it refused (kind 2).  Whatever the package remembers about a
    path from then (is it an EMD file? which roots?) is stale by the time the case uses the path."""
    if kind == 0:
        return
    try:
        import emdfile, h5py
        with quiet():
            import pathlib
            if kind == 1:
                emdfile.save(p, emdfile.Root(name="history_of_this_path"))
                emdfile.read(p)
                emdfile.read(pathlib.Path(p))          # ... under both spellings of the path (str and pathlib.Path)
            else:
                with h5py.File(p, "w") as f:
                    f.create_group("not_emd").attrs["x"] = 1
                for spelling in (p, pathlib.Path(p)):
                    try:
                        emdfile.read(spelling)
                    except Exception:
                        pass
                try:
                    emdfile.save(p, emdfile.Root(name="r"), mode="a")
                except Exception:
                    pass
    except Exception:
        pass
    finally:
        try:
            if os.path.exists(p):
                os.remove(p)
        except OSError:
            pass


@contextlib.contextmanager
def quiet():
    """silence prints / tqdm of the package"""
    so, se = sys.stdout, sys.stderr
    sys.stdout, sys.stderr = io.StringIO(), io.StringIO()
    try:
        yield
    finally:
        sys.stdout, sys.stderr = so, se


# ----------------------------------------------------------------------------
# known findings
# ----------------------------------------------------------------------------

def load_known(pid):
    path = os.path.join(VERIF, "known_findings.json")
    if not os.path.exists(path):
        return []
    with open(path, encoding="utf-8") as f:
        d = json.load(f)
    return [k for k in d.get("findings", []) if k.get("property") == pid]


# ----------------------------------------------------------------------------
# evidence / replay / verdict
# ----------------------------------------------------------------------------

class SourceCoverage:
    """line / branch coverage of the property's anchored source files during the correspondence run (coverage.py if it is
    installed; silently absent otherwise).  Reported in the evidence so that a generator that stops reaching the code a
    property is about shows up as a number, not as silence."""
    def __init__(self, pid):
        self.cov = None
        self.files = []
        if os.environ.get("VERIF_COVERAGE", "1") == "0":
            return
        try:
            import coverage, emdfile
            base = os.path.dirname(os.path.abspath(emdfile.__file__))
            with open(os.path.join(VERIF, "properties.jsonl"), encoding="utf-8") as f:
                for line in f:
                    d = json.loads(line)
                    if d["id"] == pid:
                        for rel in d["anchors"]["files"]:
                            rel = rel.split("src/emdfile/", 1)[-1]
                            self.files.append(os.path.join(base, rel))
            self.cov = coverage.Coverage(data_file=None, branch=True, include=self.files)
        except Exception:
            self.cov = None

    def start(self):
        if self.cov is not None:
            try:
                self.cov.start()
            except Exception:
                self.cov = None

    def stop(self, run):
        if self.cov is None:
            return
        try:
            self.cov.stop()
            out = {}
            for path in self.files:
                try:
                    _, stmts, _, missing, _ = self.cov.analysis2(path)
                except Exception:
                    continue
                an = self.cov._analyze(path)
                nb = an.numbers
                out[os.path.basename(path)] = {"statements": len(stmts), "executed": len(stmts) - len(missing),
                                               "branches": nb.n_branches, "branches_taken": nb.n_branches - nb.n_missing_branches}
            run.extra["source_coverage_of_anchored_files"] = out
        except Exception as e:
            run.notes.append(f"coverage measurement failed: {e}")


class Run:
    """One invocation of a check: collects counts, writes evidence, prints the verdict lines."""

    def __init__(self, pid, tier, seed):
        self.pid, self.tier, self.seed = pid, tier, seed
        self.t0 = time.time()
        self.evaluations = 0
        self.nontrivial = set()
        self.samples = []
        self.hist = {}
        self.violations = []       # (replay_path, no_input)
        self.known_lines = []
        self.notes = []
        self.extra = {}

    def count(self, key, n=1):
        self.hist[key] = self.hist.get(key, 0) + n

    def case(self, case_obj, nontrivial=True, sample=False):
        self.evaluations += 1
        if nontrivial:
            self.nontrivial.add(digest(case_obj))
        if sample and len(self.samples) < 4:
            s = canon(case_obj)
            self.samples.append(json.loads(s) if len(s) < 3000 else {"truncated": s[:3000]})

    def write_replay(self, obj, tag="v"):
        d = os.path.join(VERIF, "replays", self.pid)
        os.makedirs(d, exist_ok=True)
        path = os.path.join(d, f"{tag}_{self.tier}_s{self.seed}_{len(self.violations)}_{digest(obj)}.json")
        with open(path, "w", encoding="utf-8") as f:
            json.dump(obj, f, indent=1, sort_keys=True, ensure_ascii=True)
        return path

    def violation(self, replay_obj, no_input=False):
        replay_obj = dict(replay_obj, property=self.pid, seed=self.seed, tier=self.tier)
        path = self.write_replay(replay_obj, "noinput" if no_input else "v")
        self.violations.append((path, no_input))
        print(f"VIOLATION property={self.pid} replay={path}" + (" no-failing-input-found" if no_input else ""), flush=True)

    def known(self, text):
        line = f"KNOWN-FINDING: property={self.pid} {text}"
        if line not in self.known_lines:
            self.known_lines.append(line)
            print(line, flush=True)

    def finish(self, st, rule, level_note_extra=None, exhaustive=False):
        cov = {
            "obligations": max(st.obligations, 1),
            "discharged": st.discharged,
            "checker_cmd": f"cd /verif/lean && lake build EmdProps.{self.pid} && lake env lean <(#print axioms of every theorem {self.pid}_* in EmdProps/{self.pid}.lean)",
            "trusted_base": TRUSTED_BASE,
            "theorems": st.theorems,
            "axioms": st.axioms,
            "broken_obligations": st.broken,
            "translator": {"unavailable": st.translator.get("unavailable", []),
                           "changed_this_run": st.translator.get("changed", [])},
            "evaluations": self.evaluations,
            "distinct_nontrivial": len(self.nontrivial),
            "rule": rule,
            "samples": self.samples if self.samples else [{"note": "no case sampled"}],
            "distribution": self.hist,
            "known_findings_reported": self.known_lines,
            "notes": self.notes,
            "lean_build_s": round(st.build_s, 2),
        }
        if exhaustive:
            cov["exhaustive"] = True
        cov.update(self.extra)
        ev = {
            "property_id": self.pid, "tier": self.tier, "seed": self.seed, "level": "proof",
            "coverage": cov,
            "assumptions": TRUSTED_BASE + (level_note_extra or []),
            "wall_s": round(time.time() - self.t0, 2),
            "violations": len(self.violations),
        }
        os.makedirs(os.path.join(VERIF, "evidence"), exist_ok=True)
        path = os.path.join(VERIF, "evidence", f"{self.pid}.json")
        tmp = path + f".tmp{os.getpid()}"
        with open(tmp, "w", encoding="utf-8") as f:
            json.dump(ev, f, indent=1, sort_keys=True, ensure_ascii=True)
        os.replace(tmp, path)
        return 1 if self.violations else 0
