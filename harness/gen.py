"""
Seeded structured generators.  Everything is generated as a JSON-able *recipe* (so that a case can be
stored, replayed and shrunk) and turned into real emdfile objects by build_*.
"""
import struct
import numpy as np

IDENT = ["a", "b", "c", "d", "e", "n1", "n2", "x", "y", "z", "node", "arr", "pts", "q", "w"]
ODD = ["with space", "ünïcode", "数据", "a.b", "..", "data", "dim0", "dim1", "_tmp_a", "L" * 120, "0", "-", "x y z", "é",
       "metadatabundle_v1", "old metadatabundle", "xmetadatabundle", "node", "array", "root", "Root",
       "dimensions", "dim_notes", "dim", "dim10", "datafile", "data_2", "metadata"]
DTYPES = ["?", "i1", "u1", "i2", "u2", "i4", "u4", "i8", "u8", "f2", "f4", "f8", "c8", "c16", "S1", "S5", ">i4", ">f8"]
CLASSES = ["Node", "Array", "PointList", "PointListArray"]
# ... plus Custom nodes (harness/vcustom.py) for the checks whose models treat attribute groups (write selection, failing appends)
CLASSES_C = CLASSES + ["Custom"]


# ----------------------------------------------------------------------------
# names
# ----------------------------------------------------------------------------

TINY = ["a", "ab", "abc", "b", "ba", "a b", "aa"]
_POOL = [None]


def gen_name(r, used, odd=0.15, avoid_prefix=None):
    for _ in range(50):
        if _POOL[0] is not None:
            n = r.choice(_POOL[0])
        elif r.random() < odd:
            n = r.choice(ODD)
        else:
            n = r.choice(IDENT)
            if r.random() < 0.4:
                n += str(r.randrange(10))
        if n in used:
            continue
        if avoid_prefix and any(n.startswith(p) for p in avoid_prefix):
            continue
        used.add(n)
        return n
    n = f"k{len(used)}_{r.randrange(10**6)}"
    used.add(n)
    return n


# ----------------------------------------------------------------------------
# metadata values (documented kinds)
# ----------------------------------------------------------------------------

FLOATS = [0.0, -0.0, 1.5, -2.25, 0.1, 1e300, 5e-324, float("inf"), float("-inf"), float("nan"), 3.141592653589793]
STRS = ["", "abc", "ünï", "数据", "with space", "x" * 50, "😀", "None", "a/b"]


def f2hex(x):
    return struct.pack(">d", x).hex()


def hex2f(h):
    return struct.unpack(">d", bytes.fromhex(h))[0]


def gen_md_value(r, depth=0, maxdepth=3):
    kinds = ["none", "bool", "int", "float", "complex", "str", "arr", "tuple_num", "tuple_empty", "tuple_arr",
             "tuple_str", "tuple_tuple", "list_num", "list_empty", "list_arr", "list_str"]
    if depth < maxdepth:
        kinds += ["dict", "dict"]
    k = r.choice(kinds)
    if k == "none":
        return {"t": "none"}
    if k == "bool":
        return {"t": "bool", "v": r.random() < 0.5}
    if k == "int":
        return {"t": "int", "v": r.choice([0, 1, -1, 7, 2**31, -2**63, 2**63 - 1, r.randrange(-1000, 1000)])}
    if k == "float":
        return {"t": "float", "v": f2hex(r.choice(FLOATS + [r.uniform(-1e3, 1e3)]))}
    if k == "complex":
        return {"t": "complex", "re": f2hex(r.choice(FLOATS[:7])), "im": f2hex(r.choice(FLOATS[:7]))}
    if k == "str":
        return {"t": "str", "v": r.choice(STRS)}
    if k == "arr":
        return gen_arr(r)
    if k == "tuple_empty":
        return {"t": "tuple", "xs": []}
    if k == "list_empty":
        return {"t": "list", "xs": []}
    if k in ("tuple_num", "list_num"):
        n = r.randrange(1, 5)
        mode = r.choice(["int", "float", "mixed", "bool"])
        xs = []
        for _ in range(n):
            if mode == "int":
                xs.append({"t": "int", "v": r.randrange(-50, 50)})
            elif mode == "float":
                xs.append({"t": "float", "v": f2hex(r.choice(FLOATS[:8]))})
            elif mode == "bool":
                xs.append({"t": "bool", "v": r.random() < 0.5})
            else:
                xs.append(r.choice([{"t": "int", "v": r.randrange(-5, 5)}, {"t": "float", "v": f2hex(r.choice(FLOATS[:6]))}]))
        return {"t": k.split("_")[0], "xs": xs}
    # containers are mostly short, sometimes longer than 10 elements (element names "10", "11" sort before "2")
    clen = r.choice([1, 2, 3, 3, 12]) if r.random() < 0.9 else r.choice([11, 13, 25])
    if k in ("tuple_arr", "list_arr"):
        return {"t": k.split("_")[0], "xs": [gen_arr(r, maxrank=1) if clen > 5 else gen_arr(r) for _ in range(clen)]}
    if k in ("tuple_str", "list_str"):
        return {"t": k.split("_")[0], "xs": [{"t": "str", "v": (r.choice(STRS[:7]) if clen <= 5 else f"s{i}")} for i in range(clen)]}
    if k == "tuple_tuple":
        # tuple of numeric tuples of equal or different lengths (one level)
        n = clen
        return {"t": "tuple", "xs": [{"t": "tuple", "xs": [{"t": "int", "v": r.randrange(-9, 9)} for _ in range(r.randrange(1, 4))]}
                                      for _ in range(n)]}
    if k == "dict":
        used = set()
        items = []
        for _ in range(r.randrange(0, 4)):
            items.append([gen_name(r, used, odd=0.2), gen_md_value(r, depth + 1, maxdepth)])
        return {"t": "dict", "items": items}
    raise AssertionError(k)


def gen_arr(r, dtypes=None, maxrank=3):
    dt = r.choice(dtypes or DTYPES)
    rank = r.choice([0, 1, 1, 2, maxrank]) if maxrank >= 2 else r.randrange(0, maxrank + 1)
    shape = [r.choice([0, 1, 2, 3]) if r.random() < 0.15 else r.randrange(1, 4) for _ in range(rank)]
    return {"t": "arr", "dtype": dt, "shape": shape, "seed": r.randrange(10**6)}


def build_arr(rec):
    rng = np.random.default_rng(rec["seed"])
    dt = np.dtype(rec["dtype"])
    shape = tuple(rec["shape"])
    n = int(np.prod(shape)) if shape else 1
    if dt.kind == "b":
        a = rng.integers(0, 2, size=n).astype(dt)
    elif dt.kind in "iu":
        info = np.iinfo(dt)
        a = rng.integers(max(info.min, -1000), min(info.max, 1000), size=n, endpoint=True).astype(dt)
    elif dt.kind == "f":
        a = rng.normal(size=n).astype(dt)
    elif dt.kind == "c":
        a = (rng.normal(size=n) + 1j * rng.normal(size=n)).astype(dt)
    elif dt.kind == "S":
        alphabet = np.frombuffer(b"abcxyz ", dtype="S1")
        a = np.array([b"".join(rng.choice(alphabet, size=dt.itemsize)) for _ in range(n)], dtype=dt)
    else:
        raise ValueError(rec["dtype"])
    return a.reshape(shape)


def build_md_value(rec, share=None):
    """`share` (a dict) makes equal container recipes ONE Python object: the same dict / list / tuple / array object is then
    reachable by several paths inside one Metadata (values are compared by content; objects may be shared)"""
    if share is not None and rec["t"] in ("dict", "list", "tuple", "arr"):
        import json as _json
        key = _json.dumps(rec, sort_keys=True)
        if key not in share:
            share[key] = _build_md_value(rec, share)
        return share[key]
    return _build_md_value(rec, share)


def _build_md_value(rec, share=None):
    t = rec["t"]
    if t == "none":
        return None
    if t == "bool":
        return bool(rec["v"])
    if t == "int":
        return int(rec["v"])
    if t == "float":
        return hex2f(rec["v"])
    if t == "complex":
        return complex(hex2f(rec["re"]), hex2f(rec["im"]))
    if t == "str":
        return rec["v"]
    if t == "arr":
        return build_arr(rec)
    if t == "tuple":
        return tuple(build_md_value(x, share) for x in rec["xs"])
    if t == "list":
        return [build_md_value(x, share) for x in rec["xs"]]
    if t == "dict":
        return {k: build_md_value(v, share) for k, v in rec["items"]}
    if t == "py":
        # an edge value written as a Python expression over numpy (our own recipes only)
        return eval(rec["expr"], {"np": np, "__builtins__": {"set": set, "frozenset": frozenset, "range": range, "bytes": bytes,
                                                              "bytearray": bytearray, "complex": complex, "float": float, "int": int,
                                                              "tuple": tuple, "list": list, "dict": dict, "object": object}})
    if t == "npscalar":
        return np.dtype(rec["dtype"]).type(rec["v"])
    if t == "bytes":
        return rec["v"].encode("latin1")
    if t == "set":
        return set(build_md_value(x) for x in rec["xs"])
    raise ValueError(t)


def _other_number(r, v):
    """a number of ANOTHER kind than v (int <-> float, bool / complex -> a fractional float)"""
    if v["t"] == "float":
        return {"t": "int", "v": r.choice([2, -3, 7, 2**40])}
    return {"t": "float", "v": f2hex(r.choice([0.5, -2.75, 1e-3, 0.1]))}


def echo_keys(r, items, p=0.45):
    """DIRECTED coincidence: a nested dict REUSES a key of the level that encloses it, for a number of a different kind
    (`{'scale': 2, 'calibration': {'scale': 0.5}}`) — anything that remembers something per bare key name, instead of per
    place in the nesting, confuses the two (seen only when the object that was read is saved again)"""
    extra = []
    for k, v in items:
        if v["t"] != "dict":
            continue
        echo_keys(r, v["items"], p)
        if r.random() >= p:
            continue
        inner = {k2 for k2, _ in v["items"]}
        nums = [(k2, v2) for k2, v2 in items + extra if v2["t"] in ("int", "float", "bool", "complex") and k2 not in inner]
        if nums:
            k2, v2 = r.choice(nums)
            v["items"].append([k2, _other_number(r, v2)])
        elif "scale" not in inner and all(k2 != "scale" for k2, _ in items + extra):
            outer = {"t": "int", "v": 2} if r.random() < 0.5 else {"t": "float", "v": f2hex(0.25)}
            extra.append(["scale", outer])
            v["items"].append(["scale", _other_number(r, outer)])
    items.extend(extra)


def gen_metadata(r, used, maxdepth=2, nmax=4):
    name = gen_name(r, used, odd=0.1)
    used_k = set()
    items = []
    for _ in range(r.randrange(0, nmax)):
        items.append([gen_name(r, used_k, odd=0.2), gen_md_value(r, 1, maxdepth)])
    echo_keys(r, items)
    return {"name": name, "items": items}


def build_metadata(rec):
    import emdfile
    return emdfile.Metadata(name=rec["name"], data={k: build_md_value(v) for k, v in rec["items"]})


# ----------------------------------------------------------------------------
# payloads
# ----------------------------------------------------------------------------

FIELD_DT = ["?", "i1", "u2", "i4", "i8", "f4", "f8", "c16", "S3"]


def gen_payload(r, cls, simple=True):
    if cls == "Array":
        rank = r.randrange(1, 4) if r.random() < 0.93 else 0          # now and then 0-dimensional data (shape ())
        rec = {"dtype": r.choice(DTYPES), "shape": [r.randrange(1, 4) for _ in range(rank)], "seed": r.randrange(10**6)}
        if r.random() < 0.3:
            rec["units"] = r.choice(["nm", "", "Å", "counts per pixel"])
        if r.random() < 0.35:
            # calibrated axes: a pair or a full (non-linear) vector per axis, units and names incl. the empty string
            dims = []
            for n in rec["shape"]:
                c = r.random()
                if c < 0.4:
                    dims.append(r.choice([[0, 2], [0.0, 0.5], [-1.5, -1.0], [3, 1]]))
                elif c < 0.7:
                    dims.append([k * k + (0.5 if r.random() < 0.5 else 0) for k in range(n)])
                else:
                    dims.append(None)
            rec["cal"] = {"dims": dims, "dunits": [r.choice(["nm", "", "Å", "A^-1", "pixels"]) for _ in rec["shape"]],
                          "dnames": [r.choice(["rx", "", "q y", "énergie"]) + (str(i) if r.random() < 0.5 else "") for i, _ in enumerate(rec["shape"])]}
        return rec
    if cls == "PointList":
        used = set()
        nf = r.randrange(1, 4)
        fields = [[gen_name(r, used, odd=0.1), r.choice(FIELD_DT)] for _ in range(nf)]
        return {"fields": fields, "len": r.choice([0, 1, 2, 5]), "seed": r.randrange(10**6)}
    if cls == "PointListArray":
        used = set()
        nf = r.randrange(1, 3)
        fields = [[gen_name(r, used, odd=0.0), r.choice(["f8", "i4", "f4", "?"])] for _ in range(nf)]
        shape = [r.choice([1, 2, 3, 0]) if r.random() < 0.3 else r.choice([1, 2, 3]), r.choice([1, 2, 2, 0])]
        lens = [r.choice([0, 0, 1, 3]) for _ in range(shape[0] * shape[1])]
        return {"fields": fields, "shape": shape, "lens": lens, "seed": r.randrange(10**6)}
    if cls == "Custom":
        # node-valued attributes of every built-in class, under public and private-looking attribute names
        names = r.sample(["first", "second", "_hidden", "image", "first2", "_x"], r.choice([1, 2, 3]))
        attrs = []
        for k in names:
            c = r.choice(["Node", "Array", "PointList", "PointListArray"])
            a = {"name": k, "cls": c, "pay": gen_payload(r, c), "md": [], "kids": []}
            if r.random() < 0.2:
                a["md"] = [gen_metadata(r, set(), maxdepth=1, nmax=2)]
            attrs.append([k, a])
        return {"attrs": attrs}
    return {}


def build_structured(fields, n, seed):
    rng = np.random.default_rng(seed)
    dt = np.dtype([(f, t) for f, t in fields])
    a = np.zeros(n, dtype=dt)
    for f, t in fields:
        a[f] = build_arr({"dtype": t, "shape": [n], "seed": int(rng.integers(0, 10**6))})
    return a


def build_node(rec):
    """one node without children"""
    import emdfile
    cls, pay, name = rec["cls"], rec.get("pay", {}), rec["name"]
    if cls == "Node":
        n = emdfile.Node(name=name)
    elif cls == "Root":
        n = emdfile.Root(name=name)
    elif cls == "Array":
        kw = {}
        if "units" in pay:
            kw["units"] = pay["units"]
        if "cal" in pay:
            kw["dims"] = [None if d is None else list(d) for d in pay["cal"]["dims"]]
            kw["dim_units"] = list(pay["cal"]["dunits"])
            kw["dim_names"] = list(pay["cal"]["dnames"])
        n = emdfile.Array(data=build_arr(pay), name=name, **kw)
    elif cls == "PointList":
        n = emdfile.PointList(data=build_structured(pay["fields"], pay["len"], pay["seed"]), name=name)
    elif cls == "PointListArray":
        dt = np.dtype([(f, t) for f, t in pay["fields"]])
        n = emdfile.PointListArray(dtype=dt, shape=tuple(pay["shape"]), name=name)
        k = 0
        for i in range(pay["shape"][0]):
            for j in range(pay["shape"][1]):
                ln = pay["lens"][k]
                if ln:
                    n[i, j].add(build_structured(pay["fields"], ln, pay["seed"] + k))
                k += 1
    elif cls == "Custom":
        from harness import vcustom
        attrs = {k: build_node(dict(a, name=k)) for k, a in pay["attrs"]}
        n = vcustom.cls()(name=name, attrs=attrs)
    else:
        raise ValueError(cls)
    for m in rec.get("md", []):
        n.metadata = build_metadata(m)
    return n


# ----------------------------------------------------------------------------
# trees
# ----------------------------------------------------------------------------

def gen_tree(r, rootname=None, maxdepth=4, maxkids=4, odd=0.15, md=0.4, classes=CLASSES, budget=None, avoid_prefix=None, tiny=None):
    """recipe of a rooted tree: {"name","cls":"Root","md":[...],"kids":[...]}"""
    budget = budget if budget is not None else [r.choice([1, 3, 6, 10, 16])]
    # name stress: in one tree out of five all names come from a tiny pool of names that are prefixes of each other,
    # so that equal and prefix-related names occur at different depths of one path
    tiny = (r.random() < 0.2) if tiny is None else tiny
    if tiny:
        _POOL[0] = TINY
    try:
        return _gen_tree(r, rootname, maxdepth, maxkids, odd, md, classes, budget, avoid_prefix)
    finally:
        _POOL[0] = None


def _gen_tree(r, rootname, maxdepth, maxkids, odd, md, classes, budget, avoid_prefix):

    def node(depth, used, anc=()):
        cls = r.choice(classes)
        nm = None
        if anc and r.random() < 0.12:
            # the same name again deeper on the same path (a name is only unique among its siblings)
            cand = r.choice(anc)
            if cand not in used and not (avoid_prefix and any(cand.startswith(p) for p in avoid_prefix)):
                nm = cand
                used.add(cand)
        if nm is None:
            nm = gen_name(r, used, odd=odd, avoid_prefix=avoid_prefix)
        rec = {"name": nm, "cls": cls, "pay": gen_payload(r, cls), "md": [], "kids": []}
        if r.random() < md:
            um = set()
            rec["md"] = [gen_metadata(r, um) for _ in range(r.choice([1, 1, 2, 3]))]
        rec["kids"] = kids(depth + 1, reserved_names(rec), anc + (nm,))
        return rec

    def kids(depth, reserved, anc=()):
        out = []
        if depth > maxdepth:
            return out
        nk = r.choice([0, 1, 1, 2, 2, 3, maxkids, r.choice([0, 8])]) if depth <= maxdepth else 0
        used = set(reserved)
        for _ in range(nk):
            if budget[0] <= 0:
                break
            budget[0] -= 1
            out.append(node(depth, used, anc))
            # a SIBLING whose name is derived from this one: the writer's scratch name for it, or a name that it is a
            # proper prefix of / that is a proper prefix of it (string arithmetic on paths must respect the '/' boundary)
            if r.random() < 0.12 and budget[0] > 0:
                base = out[-1]["name"]
                cand = r.choice(["_tmp_" + base, "_tmp_" + base, base + "2", base + "_fit", base[:-1] if len(base) > 1 else base + "x"])
                if cand not in used and cand.strip() == cand and cand not in ("", ".", "..") and "/" not in cand and not (avoid_prefix and any(cand.startswith(p) for p in avoid_prefix)):
                    budget[0] -= 1
                    used.add(cand)
                    sib = node(depth, used, anc)
                    used.discard(sib["name"])
                    sib["name"] = cand
                    out.append(sib)
        return out

    root = {"name": rootname or ("R" + str(r.randrange(3))), "cls": "Root", "pay": {}, "md": [], "kids": []}
    if r.random() < md:
        um = set()
        root["md"] = [gen_metadata(r, um) for _ in range(r.choice([1, 2, 3]))]
    root["kids"] = kids(1, {"metadatabundle"}, (root["name"],) if not (avoid_prefix and any(root["name"].startswith(p) for p in avoid_prefix)) else ())
    return root


def reserved_names(rec):
    """names a child must avoid under this node: the datasets its class writes (C01-K1 region) and the bundle"""
    res = {"metadatabundle"}
    if rec["cls"] == "Array":
        res |= {"data"} | {f"dim{i}" for i in range(len(rec["pay"]["shape"]) + 1)}
    elif rec["cls"] == "PointList":
        res |= {f for f, _ in rec["pay"]["fields"]}
    elif rec["cls"] == "PointListArray":
        res |= {"data"}
    elif rec["cls"] == "Custom":
        res |= {k for k, _ in rec["pay"]["attrs"]}
    return res


def build_tree(rec):
    """returns (root object, {path tuple: object})"""
    index = {}

    def rec_build(r, parent, path):
        n = build_node(r)
        if parent is not None:
            parent.add_to_tree(n)
        index[path] = n
        for k in r.get("kids", []):
            rec_build(k, n, path + (k["name"],))
        return n

    root = rec_build(rec, None, ())
    return root, index


def tree_paths(rec, prefix=()):
    out = [prefix]
    for k in rec.get("kids", []):
        out += tree_paths(k, prefix + (k["name"],))
    return out


def tree_size(rec):
    return 1 + sum(tree_size(k) for k in rec.get("kids", []))


def tree_depth(rec):
    return 1 + max([tree_depth(k) for k in rec.get("kids", [])], default=0)


def shrink_tree(rec):
    """smaller variants of a tree recipe"""
    # drop a child subtree / hoist / drop metadata / simplify payload
    for i in range(len(rec.get("kids", []))):
        c = dict(rec); c["kids"] = rec["kids"][:i] + rec["kids"][i + 1:]
        yield c
    if rec.get("md"):
        c = dict(rec); c["md"] = []
        yield c
    if rec.get("cls") not in ("Root", "Node"):
        c = dict(rec); c["cls"] = "Node"; c["pay"] = {}
        yield c
    for i, k in enumerate(rec.get("kids", [])):
        for sk in shrink_tree(k):
            c = dict(rec); c["kids"] = rec["kids"][:i] + [sk] + rec["kids"][i + 1:]
            yield c
