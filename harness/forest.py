"""
Runtime-object histories (C12 / C13): the same list of tree operations on real emdfile objects and on the Lean
heap model, with a full snapshot of the forest after every operation.

steps:  {"do":"root","name"} {"do":"node","name"} {"do":"md","node":id,"name","content"}
        {"do":"add","parent":id,"child":id} {"do":"force",...} {"do":"graft","recv":id,"scion":id,"opt":o}
        {"do":"cut","node":id,"opt":o} {"do":"get","node":id,"path":str}
Node ids are creation order (a cut creates one node: its new root).
"""
import hashlib
import emdfile
from harness import alpha, common


def md_content(m):
    return hashlib.sha1(repr(sorted((k, repr(v)) for k, v in m._params.items())).encode()).hexdigest()[:10]


class World:
    def __init__(self):
        self.nodes = []          # id -> object
        self.ids = {}            # id(object) -> id

    def reg(self, o):
        if id(o) not in self.ids:
            self.ids[id(o)] = len(self.nodes)
            self.nodes.append(o)
        return self.ids[id(o)]

    def discover(self):
        # roots created by cut are found through the `_root` of registered nodes
        for o in list(self.nodes):
            r = o._root
            if r is not None and id(r) not in self.ids:
                self.reg(r)

    def snapshot(self):
        self.discover()
        kids_of = set()
        for o in self.nodes:
            for c in o._branch._dict.values():
                kids_of.add(id(c))
        mdobjs = {}

        def node_json(o, seen):
            if id(o) in seen:
                return {"id": self.ids.get(id(o), -1), "cycle": True}
            seen = seen | {id(o)}
            md = {}
            for k, m in o._metadata.items():
                mdobjs.setdefault(id(m), (m, []))[1].append((self.ids[id(o)], k))
                md[k] = id(m)
            return {"id": self.ids.get(id(o), -1), "name": o.name, "isroot": isinstance(o, emdfile.Root),
                    "root": (self.ids.get(id(o._root), -2) if o._root is not None else None),
                    "tp": o._treepath, "md": md,
                    "k": [node_json(c, seen) for c in o._branch._dict.values()]}
        comps = [node_json(o, frozenset()) for o in self.nodes if id(o) not in kids_of]
        mds = {str(k): [m.name, md_content(m)] for k, (m, _) in mdobjs.items()}
        return {"comps": comps, "mds": mds}


def canon_heap(h):
    """identity of Metadata objects as a partition: every md id is replaced by the sorted list of (node id, key)
    locations that reference it; children and components sorted"""
    locs = {}

    def collect(n):
        for k, mid in n.get("md", {}).items():
            locs.setdefault(str(mid), []).append([n["id"], k])
        for c in n.get("k", []):
            collect(c)
    for c in h["comps"]:
        collect(c)
    name = {mid: "md@" + ";".join(f"{a}:{b}" for a, b in sorted(l)) for mid, l in locs.items()}

    def conv(n):
        out = {k: v for k, v in n.items() if k not in ("md", "k")}
        out["md"] = {k: [name[str(mid)]] + list(h["mds"].get(str(mid), ["?", "?"])) for k, mid in n.get("md", {}).items()}
        out["k"] = sorted((conv(c) for c in n.get("k", [])), key=lambda x: x["id"])
        return out
    return {"comps": sorted((conv(c) for c in h["comps"]), key=lambda x: x["id"])}


def parse_get(path):
    from_root = path.startswith("/")
    l = path.split("/")
    for _ in range(2):
        if "" in l:
            l.remove("")
    return from_root, l


def opt_py(o):
    """option strings as a caller would typically have them: built at run time (from a config file, argv, .lower() ...),
    i.e. EQUAL to the documented spelling but not the interned literal object"""
    if isinstance(o, str):
        return "".join(list(o))
    return o


def make_node(st):
    """ordinary nodes of every built-in class (the tree operations are those of Node; a class may define __len__ / __bool__)"""
    import numpy as np
    cls = st.get("cls", "Node")
    nm = "".join(list(st["name"]))
    if cls == "PointList0":
        return emdfile.PointList(data=np.zeros(0, dtype=[("x", float)]), name=nm)
    if cls == "PointList":
        return emdfile.PointList(data=np.zeros(2, dtype=[("x", float)]), name=nm)
    if cls == "Array":
        return emdfile.Array(data=np.zeros((2, 2)), name=nm)
    if cls == "Array0":
        return emdfile.Array(data=np.zeros((0,)), name=nm)
    if cls == "PointListArray":
        return emdfile.PointListArray(dtype=[("x", float)], shape=(1, 2), name=nm)
    return emdfile.Node(name=nm)


def run_impl(steps):
    w = World()
    obs = []
    for st in steps:
        do = st["do"]
        via = st.get("via", "method")
        r = "ok"
        try:
            with common.quiet(), common.time_limit(20):
                if do == "root":
                    w.reg(emdfile.Root(name=st["name"]))
                elif do == "node":
                    w.reg(make_node(st))
                elif do == "md":
                    w.nodes[st["node"]].metadata = emdfile.Metadata(name=st["name"], data={"c": st["content"]})
                # every operation has a method spelling and one or two spellings through the dispatcher `.tree(...)`
                elif do == "add":
                    p_, c_ = w.nodes[st["parent"]], w.nodes[st["child"]]
                    if via == "tree":
                        p_.tree(c_)
                    elif via == "tree2":
                        p_.tree(add=c_)
                    else:
                        p_.add_to_tree(c_)
                elif do == "force":
                    p_, c_ = w.nodes[st["parent"]], w.nodes[st["child"]]
                    if via in ("tree", "tree2"):
                        p_.tree(c_, force=True)
                    else:
                        p_.force_add_to_tree(c_)
                elif do == "graft":
                    rv_, sc_, op_ = w.nodes[st["recv"]], w.nodes[st["scion"]], opt_py(st["opt"])
                    if via == "tree":
                        x = rv_.tree(graft=(sc_, op_))
                    elif via == "tree2":
                        x = rv_.tree(graft=sc_) if op_ is True else rv_.tree(graft=[sc_, op_])
                    else:
                        x = rv_.graft(sc_, merge_metadata=op_)
                    r = {"node": w.reg(x)} if x is not None else "ok"
                elif do == "cut":
                    x = w.nodes[st["node"]].tree(cut=opt_py(st["opt"])) if via in ("tree", "tree2") else \
                        w.nodes[st["node"]].cut(root_metadata=opt_py(st["opt"]))
                    r = {"node": w.reg(x)}
                elif do == "get":
                    n_ = w.nodes[st["node"]]
                    x = n_.tree(st["path"]) if via == "tree" else (n_.tree(get=st["path"]) if via == "tree2" else n_.get_from_tree(st["path"]))
                    r = {"node": w.ids[id(x)]} if x is not None and id(x) in w.ids else "error"
                else:
                    raise ValueError(do)
        except AssertionError:
            r = "refused"
        except RecursionError:
            r = "error"
        except Exception:
            r = "error"
        obs.append({"r": RAISED if r in ("refused", "error") else r, "heap": canon_heap(w.snapshot())})
    return obs


# which exception a failing operation raises is not part of any property (see common.comparable)
RAISED = "raised"


def model_steps(steps):
    out = []
    for st in steps:
        if st["do"] == "get":
            fr, names = parse_get(st["path"])
            out.append({"do": "get", "node": st["node"], "fromroot": fr, "names": names})
        elif st["do"] == "md":
            out.append(dict(st, content=hashlib.sha1(repr([("c", repr(st["content"]))]).encode()).hexdigest()[:10]))
        else:
            out.append(st)
    return out


def run_model(drv, steps):
    r = drv.ask({"op": "forest", "steps": model_steps(steps)})
    if "out" not in r:
        return [r]
    return [{"r": RAISED if o["r"] in ("refused", "error") else o["r"], "heap": canon_heap(o["heap"])} for o in r["out"]]
