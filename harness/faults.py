"""
Fault injection at the h5py level (no hook in the repository): every mutating call of h5py's high-level API made while
a save runs is counted, and the k-th one can be made to raise.  Mutations: create group / dataset, move, link
assignment, delete, attribute create / set / delete / modify.
"""
import contextlib
import h5py
from h5py._hl.group import Group
from h5py._hl.attrs import AttributeManager
from h5py._hl.dataset import Dataset


class InjectedFault(Exception):
    pass


class Injector:
    def __init__(self, fail_at=None):
        self.count = 0
        self.fail_at = fail_at
        self.log = []

    def hit(self, what):
        k = self.count
        self.count += 1
        self.log.append(what)
        if self.fail_at is not None and k == self.fail_at:
            raise InjectedFault(f"injected failure at mutation {k}: {what}")


TARGETS = [(Group, "create_group"), (Group, "create_dataset"), (Group, "move"), (Group, "__setitem__"), (Group, "__delitem__"),
           (Group, "require_group"), (Group, "copy"),
           (AttributeManager, "create"), (AttributeManager, "__setitem__"), (AttributeManager, "__delitem__"),
           (AttributeManager, "modify"), (Dataset, "__setitem__")]


@contextlib.contextmanager
def inject(inj):
    saved = []
    depth = [0]

    def wrap(cls, name):
        orig = getattr(cls, name)

        def f(self, *a, **kw):
            # count only outermost mutations (create_dataset internally sets items / attrs)
            if depth[0] == 0:
                inj.hit(f"{cls.__name__}.{name}")
            depth[0] += 1
            try:
                return orig(self, *a, **kw)
            finally:
                depth[0] -= 1
        saved.append((cls, name, orig))
        setattr(cls, name, f)
    for cls, name in TARGETS:
        if hasattr(cls, name):
            wrap(cls, name)
    try:
        yield inj
    finally:
        for cls, name, orig in saved:
            setattr(cls, name, orig)
