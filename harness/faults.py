"""
Fault injection at the h5py level (no hook in the repository): every mutating call of h5py's high-level API made while
a save runs is counted, and the k-th one can be made to raise.  Mutations: create group / dataset, move, link
assignment, delete, attribute create / set / delete / modify.
"""
import contextlib
import h5py
from h5py._hl.group import Group
from h5py._hl.attrs import AttributeManager
from h5py._hl.dataset import Dataset


class InjectedFault(Exception):
    pass


class Injector:
    def __init__(self, fail_at=None, trace=False):
        self.count = 0
        self.fail_at = fail_at
        self.log = []
        self.trace = [] if trace else None      # the mutations that were PERFORMED, as records of the Lean `Mut` type

    def hit(self, what):
        k = self.count
        self.count += 1
        self.log.append(what)
        if self.fail_at is not None and k == self.fail_at:
            raise InjectedFault(f"injected failure at mutation {k}: {what}")


TARGETS = [(Group, "create_group"), (Group, "create_dataset"), (Group, "move"), (Group, "__setitem__"), (Group, "__delitem__"),
           (Group, "require_group"), (Group, "copy"),
           (AttributeManager, "create"), (AttributeManager, "__setitem__"), (AttributeManager, "__delitem__"),
           (AttributeManager, "modify"), (Dataset, "__setitem__")]


def _path(name):
    if isinstance(name, bytes):
        name = name.decode("utf-8", "replace")
    name = name.strip("/")
    return name.split("/") if name else []


def _owner_path(attrs):
    return _path(h5py.h5i.get_name(attrs._id))


def _dval(ds):
    from harness import alpha, arrays
    # the same rendering the raw walk uses for datasets (alpha.raw_obj / arrays.body_obs): a token
    return alpha.dataset_token(ds)


def before(cls, name, self, a, kw):
    if cls is Group and name == "require_group":
        return a[0] in self
    return None


def after(cls, name, self, a, kw, out, pre):
    """the performed mutation as a record of the model's `Mut` type (None: no mutation happened)"""
    from harness import alpha
    if cls is Group:
        p = _path(self.name)
        if name == "create_group":
            return {"m": "mkGroup", "p": p, "n": a[0] if a else kw["name"]}
        if name == "require_group":
            return None if pre else {"m": "mkGroup", "p": p, "n": a[0]}
        if name == "create_dataset":
            nm = a[0] if a else kw["name"]
            return {"m": "mkDataset", "p": p, "n": nm, "v": _dval(out)}
        if name == "__setitem__":
            nm, obj = a[0], a[1]
            if isinstance(obj, (h5py.Group, h5py.Dataset)):
                return {"m": "link", "p": p, "n": nm, "t": _path(obj.name)}
            return {"m": "mkDataset", "p": p, "n": nm, "v": _dval(self[nm])}
        if name == "__delitem__":
            return {"m": "delete", "p": p, "n": a[0]}
        if name == "move":
            return {"m": "move", "p": p, "s": a[0], "d": a[1]}
        return {"m": "untraceable", "why": f"Group.{name}"}
    if cls is AttributeManager:
        p = _owner_path(self)
        key = a[0] if a else kw.get("name")
        if name == "__delitem__":
            return {"m": "delAttr", "p": p, "k": key}
        return {"m": "setAttr", "p": p, "k": key, "v": alpha.attr_val(key, self[key], None)}
    if cls is Dataset and name == "__setitem__":
        return {"m": "setData", "p": _path(self.name), "v": _dval(self)}
    return {"m": "untraceable", "why": f"{cls.__name__}.{name}"}


@contextlib.contextmanager
def inject(inj):
    saved = []
    depth = [0]

    def wrap(cls, name):
        orig = getattr(cls, name)

        def f(self, *a, **kw):
            # count only outermost mutations (create_dataset internally sets items / attrs)
            outer = depth[0] == 0
            if outer:
                inj.hit(f"{cls.__name__}.{name}")
            pre = None
            if outer and inj.trace is not None:
                try:
                    pre = before(cls, name, self, a, kw)
                except Exception:
                    pre = None
            depth[0] += 1
            try:
                out = orig(self, *a, **kw)
            finally:
                depth[0] -= 1
            if outer and inj.trace is not None:
                try:
                    rec = after(cls, name, self, a, kw, out, pre)
                except Exception as e:
                    rec = {"m": "untraceable", "why": f"{cls.__name__}.{name}: {type(e).__name__}: {e}"}
                if rec is not None:
                    inj.trace.append(rec)
            return out
        saved.append((cls, name, orig))
        setattr(cls, name, f)
    for cls, name in TARGETS:
        if hasattr(cls, name):
            wrap(cls, name)
    try:
        yield inj
    finally:
        for cls, name, orig in saved:
            setattr(cls, name, orig)
