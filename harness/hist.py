"""
Histories: the same list of steps executed on the real package (in-process) and on the Lean model.

A case is {"trees": {id: tree recipe}, "unrooted": {id: node recipe}, "steps": [step, ...]} with steps
  {"do":"save","path":P,"src":id,"target":[names],"mode":m,"tree":true|false|null,"emdpath":s|null}
  {"do":"read","path":P,"emdpath":s|null,"tree":...}
  {"do":"walk","path":P}     {"do":"info","path":P}
  {"do":"put","path":P,"junk":text}        {"do":"session","program":..,"user":..}
Execution of a history stops after the first save that raises (the observation of that step is the last one).
"""
import os
import emdfile
from harness import alpha, common, gen


def reindex(root):
    idx = {}
    def rec(n, path):
        idx[path] = n
        for c in n._branch._dict.values():
            rec(c, path + (c.name,))
    rec(root, ())
    return idx


class ImplWorld:
    _n = [0]

    def __init__(self, case):
        self.case = case
        self._seen_paths = set()
        self.dir = common.fresh_path(suffix="_d")
        os.makedirs(self.dir, exist_ok=True)
        self.umap = alpha.UuidMap()
        self.trees = {}
        self.index = {}
        for tid, rec in case.get("trees", {}).items():
            root, idx = gen.build_tree(rec)
            self.trees[tid] = root
            self.index[tid] = idx
        self.unrooted = {uid: gen.build_node(rec) for uid, rec in case.get("unrooted", {}).items()}
        self.prog0, self.user0 = emdfile._PROGRAM_NAME, emdfile._USER_NAME
        # trees that were not only BUILT by adding nodes but re-arranged afterwards (cut / graft): what a tree is, is read off
        # the objects' branches, never off the `_root` / `_treepath` a node remembers
        for op in case.get("prep", []):
            node = self.index[op["tree"]][tuple(op["path"])]
            with common.quiet():
                if op["op"] == "cut":
                    newroot = node.cut(root_metadata=op.get("opt", True))
                    self.trees[op["as"]] = newroot
                else:
                    recv = self.index[op["onto"][0]][tuple(op["onto"][1])]
                    recv.graft(node, merge_metadata=op.get("opt", False))
            for tid in list(self.trees):
                self.index[tid] = reindex(self.trees[tid])

    def path(self, p):
        # some histories pass every path as a pathlib.Path: the package accepts both, and must treat them alike
        q = os.path.join(self.dir, p + ".h5")
        if p not in self._seen_paths:
            # the first time a history touches a path, the package has already seen that path holding something else
            self._seen_paths.add(p)
            if os.environ.get("VERIF_PATH_HISTORY", "1") != "0" and not os.path.exists(q):
                common._give_history(q, (len(self.dir) + len(p) + ImplWorld._n[0]) % 3)
                ImplWorld._n[0] += 1
        if self.case.get("pathlib"):
            import pathlib
            return pathlib.Path(q)
        return q

    def src_obj(self, step):
        sid = step["src"]
        if sid in self.unrooted:
            return self.unrooted[sid]
        return self.index[sid][tuple(step.get("target", []))]

    def src_json(self, step):
        """the model's view of the source at the time of the step"""
        sid = step["src"]
        if sid in self.unrooted:
            return {"unrooted": alpha.node_info(self.unrooted[sid])}
        return {"root": alpha.tree_json(self.trees[sid]), "target": list(step.get("target", []))}

    def input_obj_and_json(self, inp):
        """(python object to pass to save, model JSON of the input) for a non-Node input recipe"""
        import numpy as np
        kind = inp["kind"]
        if kind == "array":
            a = gen.build_arr(inp["rec"])
            return a, {"kind": "array", "body": alpha.node_info(emdfile.Array(data=a, name="x"))["b"]}
        if kind == "dict":
            d = {k: gen.build_md_value(v) for k, v in inp["items"]}
            return d, {"kind": "dict", "entry": alpha.metadata_obj(emdfile.Metadata(name="x", data=d))}
        if kind == "metadata":
            m = gen.build_metadata(inp["rec"])
            return m, {"kind": "metadata", "name": m.name, "entry": alpha.metadata_obj(m)}
        if kind == "other":
            return inp.get("value", 5), {"kind": "other"}
        if kind in ("list", "tuple"):
            objs, js = [], []
            for it in inp["items"]:
                if "root" in it:
                    objs.append(self.trees[it["root"]]); js.append({"root": alpha.tree_json(self.trees[it["root"]])})
                elif "node" in it:
                    tid, path = it["node"]
                    o = self.index[tid][tuple(path)]
                    objs.append(o)
                    js.append({"rooted": {"id": sorted(self.trees).index(tid), "root": alpha.tree_json(self.trees[tid]),
                                          "target": list(path)}})
                elif "unrooted" in it:
                    o = self.unrooted[it["unrooted"]]
                    objs.append(o); js.append({"unrooted": alpha.node_info(o)})
                elif "array" in it:
                    a = gen.build_arr(it["array"])
                    objs.append(a); js.append({"array": alpha.node_info(emdfile.Array(data=a, name="x"))["b"]})
                elif "dict" in it:
                    d = {k: gen.build_md_value(v) for k, v in it["dict"]}
                    objs.append(d); js.append({"dict": alpha.metadata_obj(emdfile.Metadata(name="x", data=d))})
                else:
                    objs.append(it.get("other", 3.5)); js.append({"other": 1})
            return (tuple(objs) if kind == "tuple" else objs), {"kind": "list", "items": js}
        raise ValueError(kind)

    def close(self):
        emdfile.set_program(self.prog0)
        emdfile.set_author(self.user0)
        import shutil
        shutil.rmtree(self.dir, ignore_errors=True)


def run_impl(case, collect_model_steps=True):
    """returns (observations, model_steps)"""
    w = ImplWorld(case)
    obs, msteps = [], []
    try:
        for st in case["steps"]:
            do = st["do"]
            if do == "save":
                m = {"do": "save", "path": st["path"], "mode": st["mode"],
                     "tree": st.get("tree", True), "emdpath": st.get("emdpath")}
                if "input" in st:
                    obj, m["input"] = w.input_obj_and_json(st["input"])
                else:
                    obj, m["src"] = w.src_obj(st), w.src_json(st)
                msteps.append(m)
                held = None
                if st.get("hold_open"):
                    # another part of the program still has the OLD file open for reading while it is replaced
                    import h5py
                    pth = w.path(st["path"])
                    if os.path.exists(str(pth)) and h5py.is_hdf5(str(pth)):
                        held = h5py.File(str(pth), "r")
                failed = False
                mode_arg = st["mode"]
                if st.get("mode_as") == "np.str_":
                    import numpy as np
                    mode_arg = np.str_(mode_arg)          # a numpy string (e.g. taken from an array of settings)
                elif st.get("mode_as") == "str_subclass":
                    mode_arg = type("Mode", (str,), {})(mode_arg)
                try:
                    with common.quiet(), common.time_limit(300):
                        emdfile.save(w.path(st["path"]), obj, mode=mode_arg, tree=st.get("tree", True),
                                     emdpath=st.get("emdpath"))
                    obs.append({"ok": True})
                except Exception as e:
                    obs.append(alpha.exc_kind(e))
                    failed = True
                finally:
                    if held is not None:
                        held.close()
                if failed and not case.get("continue_after_failure"):
                    break
            elif do == "read":
                msteps.append(dict(st))
                try:
                    with common.quiet(), common.time_limit(300):
                        x = emdfile.read(w.path(st["path"]), emdpath=st.get("emdpath"), tree=st.get("tree", True))
                    obs.append(alpha.readout_json(x))
                except Exception as e:
                    obs.append(alpha.exc_kind(e))
            elif do == "walk":
                msteps.append(dict(st))
                p = w.path(st["path"])
                obs.append(alpha.raw_file(p, w.umap) if os.path.exists(p) else {"absent": True})
            elif do == "hash":
                msteps.append(dict(st))
                p = w.path(st["path"])
                if os.path.exists(p):
                    import hashlib
                    obs.append({"hash": hashlib.sha256(open(p, "rb").read()).hexdigest()})
                else:
                    obs.append({"absent": True})
            elif do == "validate":
                msteps.append(dict(st))
                from harness import validator
                why = validator.validate(w.path(st["path"]), emdfile._PROGRAM_NAME, emdfile._USER_NAME, st.get("legit", ()))
                obs.append({"valid": why is None} if why is None else {"valid": False, "why": why})
            elif do == "info":
                msteps.append(dict(st))
                p = w.path(st["path"])
                try:
                    with common.quiet():
                        is_emd = bool(emdfile._is_EMD_file(p))
                        v = list(emdfile._get_EMD_version(p)) if is_emd else None
                        from emdfile.utils import _get_EMD_rootgroups
                        rg = [str(s) for s in _get_EMD_rootgroups(p)]
                    obs.append({"is_emd": is_emd, "version": v, "rootgroups": rg})
                except Exception as e:
                    obs.append({"err": "error"})
            elif do == "put":
                msteps.append(dict(st))
                with open(w.path(st["path"]), "wb") as f:
                    f.write(st["junk"].encode())
                obs.append({"ok": True})
            elif do == "puth5":
                import h5py, numpy as np
                p = w.path(st["path"])
                with h5py.File(p, "w") as f:
                    spec = st["spec"]
                    if spec == "attrs_only":
                        f.attrs["emd_group_type"] = "file"; f.attrs["version_major"] = 1; f.attrs["version_minor"] = 0
                    elif spec == "wrong_version":
                        f.attrs["emd_group_type"] = "file"; f.attrs["version_major"] = 2; f.attrs["version_minor"] = 0
                        g = f.create_group("r"); g.attrs["emd_group_type"] = "root"
                    elif spec == "no_roots":
                        f.attrs["emd_group_type"] = "file"; f.attrs["version_major"] = 1; f.attrs["version_minor"] = 0
                        g = f.create_group("r"); g.attrs["emd_group_type"] = "node"
                    elif spec == "group":
                        g = f.create_group("stuff"); g.create_dataset("x", data=np.arange(3))
                    elif spec == "wrong_type":
                        f.attrs["emd_group_type"] = "root"; f.attrs["version_major"] = 1; f.attrs["version_minor"] = 0
                        g = f.create_group("r"); g.attrs["emd_group_type"] = "root"
                    elif spec == "minimal_emd":
                        f.attrs["emd_group_type"] = "file"; f.attrs["version_major"] = 1; f.attrs["version_minor"] = 0
                        g = f.create_group("r"); g.attrs["emd_group_type"] = "root"; g.attrs["python_class"] = "Root"
                msteps.append({"do": "put", "path": st["path"], "h5": alpha.raw_file(p, w.umap)["h5"]})
                obs.append({"ok": True})
            elif do == "remove":
                msteps.append(dict(st))
                os.remove(w.path(st["path"]))
                obs.append({"ok": True})
            elif do == "session":
                msteps.append(dict(st))
                if st.get("program") is not None:
                    emdfile.set_program(st["program"])
                if st.get("user") is not None:
                    emdfile.set_author(st["user"])
                obs.append({"ok": True})
            else:
                raise ValueError(do)
    finally:
        w.close()
    return obs, msteps


def put_junk_model(st):
    import hashlib
    return {"do": "put", "path": st["path"], "junk": hashlib.sha1(st["junk"].encode()).hexdigest()[:12]}


def run_model(drv, msteps, n_obs):
    steps = [put_junk_model(s) if s["do"] == "put" and "junk" in s else s for s in msteps]
    r = drv.ask({"op": "history", "steps": steps})
    if "out" not in r:
        return [r]
    return r["out"][:n_obs]


def canon_list(obs):
    out = [alpha.canon_obs(o) for o in obs]
    seen = {}
    for o in out:
        if isinstance(o, dict) and "hash" in o:
            o["hash"] = seen.setdefault(o["hash"], f"H{len(seen)}")
    return out


# ----------------------------------------------------------------------------
# helpers for oracles (independent Python statement of the specs, on alpha's JSON)
# ----------------------------------------------------------------------------

DATA_TYPES = ("node", "array", "pointlist", "pointlistarray", "custom")
LAST = {"msteps": None}


def is_data_group(o):
    return "g" in o and o["g"].get("emd_group_type") in DATA_TYPES


def obj_to_tree(name, o):
    """raw group JSON -> tree JSON {n,c,t,b,k}: tagged data groups are children, everything else is body"""
    return {"n": name, "c": o["g"].get("python_class"), "t": o["g"].get("emd_group_type"),
            "b": [[k, v] for k, v in o["k"] if not is_data_group(v)],
            "k": [obj_to_tree(k, v) for k, v in o["k"] if is_data_group(v)]}


def tree_at(t, path):
    for n in path:
        nxt = [k for k in t["k"] if k["n"] == n]
        if not nxt:
            return None
        t = nxt[0]
    return t


def alone(t):
    return dict(t, k=[])


def file_roots(walk):
    """{root name: tree JSON} of an EMD file walk"""
    return {k: obj_to_tree(k, o) for k, o in walk["h5"]["k"] if "g" in o and o["g"].get("emd_group_type") == "root"}


def tree_paths_json(t, prefix=()):
    out = [(prefix, t["c"], t["t"])]
    for k in t["k"]:
        out += tree_paths_json(k, prefix + (k["n"],))
    return out


def canon_tree(t):
    return alpha.canon_obs(t)
