"""
Custom nodes for C05: a Custom-derived node whose attributes are nodes of every built-in class, of SUBCLASSES of the
built-in classes, and nested Custom nodes; written under a root (new file, append, append-over) and validated by the
independent validator and — the raw walk of the real file handed to the driver — by the Lean `validFile`.
"""
import os
import numpy as np
import emdfile
from harness import common, alpha

ATTR_CLASSES = ["Node", "Array", "PointList", "PointListArray", "Custom"]
DATA = ("node", "array", "pointlist", "pointlistarray", "custom")


def gen_custom(r, depth=0):
    attrs = []
    used = set()
    for _ in range(r.choice([1, 2, 3])):
        nm = r.choice(["first", "second", "image", "peaks", "grid", "inner", "_hidden", "data2"])
        if nm in used:
            continue
        used.add(nm)
        cls = r.choice(ATTR_CLASSES if depth < 2 else ATTR_CLASSES[:4])
        a = {"name": nm, "cls": cls, "sub": r.random() < 0.5}
        if cls == "Custom":
            a["custom"] = gen_custom(r, depth + 1)
        attrs.append(a)
    return {"attrs": attrs, "sub": r.random() < 0.4, "md": r.random() < 0.4}


def gen_case(r):
    return {"custom": gen_custom(r), "under": r.choice(["root", "node"]),
            "modes": r.choice([["w"], ["w", "ao"], ["w", "a"], ["o", "appendover"], ["w", "ao", "ao"]]),
            "child": r.random() < 0.5, "rooted_attr": r.random() < 0.3}


_SUB = {}
LAST = {"attrs": None}


def sub_of(base, tag):
    key = (base, tag)
    if key not in _SUB:
        _SUB[key] = type(tag, (getattr(emdfile, base),), {})
    return _SUB[key]


SUBNAMES = {"Node": "Leaf", "Array": "Image", "PointList": "Peaks", "PointListArray": "Grid", "Custom": "Bundle"}


def uses_subclass(spec):
    # (a nested plain Custom attribute cannot be read either: the base class has no reader hook of its own)
    return bool(spec["sub"]) or any(a["sub"] or a["cls"] == "Custom" for a in spec["attrs"])


def build_attr(a):
    cls = a["cls"]
    if cls == "Custom":
        return build_custom(a["custom"], a["name"], force_sub=a["sub"])
    T = sub_of(cls, SUBNAMES[cls]) if a["sub"] else getattr(emdfile, cls)
    if cls == "Node":
        return T(name=a["name"])
    if cls == "Array":
        return T(data=np.arange(6.0).reshape(2, 3), name=a["name"])
    if cls == "PointList":
        return T(data=np.zeros(2, dtype=[("x", float), ("y", int)]), name=a["name"])
    return T(dtype=[("x", float)], shape=(1, 2), name=a["name"])


def build_custom(spec, name, force_sub=False):
    T = sub_of("Custom", SUBNAMES["Custom"]) if (spec["sub"] or force_sub) else emdfile.Custom
    o = T(name=name)
    for a in spec["attrs"]:
        setattr(o, a["name"], build_attr(a))
    if spec["md"]:
        o.metadata = emdfile.Metadata(name="m", data={"k": 1})
    return o


def run_impl(case):
    """-> (observations, raw walk of the file after every successful save)"""
    root = emdfile.Root(name="r")
    parent = root
    if case["under"] == "node":
        parent = emdfile.Node(name="p")
        root.tree(parent)
    c = build_custom(case["custom"], "c")
    parent.tree(c)
    keep = []
    if case.get("rooted_attr"):
        # an attribute node that ALSO belongs to a tree of its own (e.g. it came from emd.read of another file): it is still
        # an attribute of this object and is stored with it
        for k, v in list(vars(c).items()):
            if isinstance(v, emdfile.Node) and not isinstance(v, emdfile.Root) and not k.startswith("_") and v._root is None:
                er = emdfile.Root(name="elsewhere")
                v.name = k
                er.tree(v)
                keep.append(er)
                break
    if case["child"]:
        c.tree(emdfile.Node(name="child"))
    p = common.fresh_path()
    obs, raws = [], []
    try:
        for mode in case["modes"]:
            try:
                with common.quiet():
                    emdfile.save(p, root, mode=mode)
                ok = True
            except Exception as e:
                ok = False
                obs.append({"save": mode, "r": alpha.exc_kind(e)})
            if ok:
                from harness import validator
                why = validator.validate(p, emdfile._PROGRAM_NAME, emdfile._USER_NAME, ())
                raw = alpha.raw_file(p)["h5"]
                # the body of the Custom node's group in the file (everything that is not a child node), by name
                g = dict(raw["k"])["r"]
                if case["under"] == "node":
                    g = dict(g["k"])["p"]
                g = dict(g["k"])["c"]
                body = sorted(([k, o] for k, o in g["k"] if not ("g" in o and o["g"].get("emd_group_type") in DATA)), key=lambda e: e[0])
                ob = {"save": mode, "r": {"ok": True}, "valid": why is None, "why": why, "cbody": body}
                if not uses_subclass(case["custom"]):
                    # the dictionary the reader hook gets from the REAL `_get_emd_attr_data` (all attribute classes built in)
                    import h5py
                    try:
                        with common.quiet(), h5py.File(p, "r") as f:
                            grp = f["r"]["p"]["c"] if case["under"] == "node" else f["r"]["c"]
                            ob["attrkeys"] = sorted(emdfile.Custom._get_emd_attr_data(emdfile.Custom, grp).keys())
                    except Exception as e:
                        ob["attrkeys"] = alpha.exc_kind(e)
                obs.append(ob)
                raws.append(raw)
            else:
                raws.append(None)
    finally:
        if os.path.exists(p):
            os.remove(p)
    # what the model needs to predict the body: the node-valued attributes in attribute order, each encoded alone by its class
    attrs = []
    for k, v in vars(c).items():
        if isinstance(v, emdfile.Node) and not isinstance(v, emdfile.Root):
            attrs.append(dict(alpha.node_info(v), n=k))
    LAST["attrs"] = attrs
    return obs, raws


def run_model(drv, obs, raws):
    """the Lean validator on the raw walk of the real file"""
    out = []
    for o, raw in zip(obs, raws):
        if raw is None:
            out.append(dict(o))
            continue
        r = drv.ask({"op": "history", "steps": [
            {"do": "session", "program": emdfile._PROGRAM_NAME, "user": emdfile._USER_NAME},
            {"do": "put", "path": "C", "h5": raw},
            {"do": "validate", "path": "C"}]})
        v = r["out"][2] if "out" in r and len(r["out"]) == 3 else {"valid": None, "driver": r}
        mo = dict(o, valid=v.get("valid"))
        if "cbody" in o:
            # `Custom.to_h5` in the model (EmdModel.customBody): the bundle `Node.to_h5` wrote, then one re-tagged group per
            # node-valued attribute
            own = [e for e in o["cbody"] if e[0] == "metadatabundle"]
            cb = drv.ask({"op": "custombody", "own": own, "attrs": LAST["attrs"]})
            mo["cbody"] = sorted(cb["body"], key=lambda e: e[0]) if "body" in cb else cb
            if "attrkeys" in o:
                mo["attrkeys"] = sorted(cb.get("attrkeys", [])) if "attrkeys" in cb else cb
        out.append(mo)
    return out
